"""Native replay of one harness on concrete arguments (fresh interpreter, no CrossHair)."""
import json
import sys
import traceback


def main():
    pid, hname, args = sys.argv[1], sys.argv[2], json.loads(sys.argv[3])
    from vf import ch
    from vf.driver import get_harness
    ch.NATIVE = True
    h = get_harness(pid, hname)
    args = ch.dec(args)
    out = {"harness": hname, "args": repr(args)}
    try:
        ok = h.fn(*args)
        out["ok"] = bool(ok)
    except ch.Prune:
        out["ok"] = None
        out["error"] = "arguments outside the harness bounds (pruned)"
    except BaseException as e:  # noqa
        out["ok"] = None
        out["error"] = "harness raised natively: %r" % (e,)
        out["traceback"] = traceback.format_exc()[-3000:]
    try:
        out["last"] = json.loads(json.dumps(ch.LAST, default=repr))
    except Exception:
        pass
    if h.describe is not None and out["ok"] is not None:
        try:
            out["transcript"] = h.describe(*args)
        except BaseException as e:  # noqa
            out["transcript"] = "describe failed: %r" % (e,)
    print(json.dumps(out, default=repr))


if __name__ == "__main__":
    main()
