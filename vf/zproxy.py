"""E2 - a small proxy-based symbolic executor (DESIGN 1.1): the real testtools functions run on proxy objects
that carry SMT terms (sets of an uninterpreted Tag sort in z3; strings in cvc5), a fork-and-replay explorer
re-runs the harness once per feasible decision vector, and at the end of each path the negated property is
handed to the solver: unsat = discharged for ALL sets / strings, sat = counterexample model.
Any operation a proxy does not implement raises Unsupported -> the lemma is reported inconclusive."""
import time


class Unsupported(TypeError):
    pass


class Backend:
    """Uniform view of z3 / cvc5.pythonic."""

    def __init__(self, name):
        self.name = name
        if name == "z3":
            import z3 as m
        else:
            from cvc5 import pythonic as m
        self.m = m
        self.queries = 0
        self.time_s = 0.0
        self.timeout_ms = 20000

    def check(self, assertions):
        m = self.m
        s = m.Solver()
        if self.name == "z3":
            s.set("timeout", self.timeout_ms)
        else:
            try:
                s.setOption("tlimit-per", str(self.timeout_ms))
                s.setOption("strings-exp", "true")
            except Exception:
                pass
        for a in assertions:
            s.add(a)
        t0 = time.perf_counter()
        r = s.check()
        self.queries += 1
        self.time_s += time.perf_counter() - t0
        rs = str(r)
        model = None
        if rs == "sat":
            try:
                model = s.model()
            except Exception:
                model = None
        return rs, model


class Path:
    cur = None

    def __init__(self, backend, prefix):
        self.b = backend
        self.prefix = list(prefix)
        self.taken = []
        self.pc = []
        self.forks = []

    def assume(self, cond):
        self.pc.append(cond)

    def decide(self, cond):
        m = self.b.m
        if isinstance(cond, bool):
            return cond
        i = len(self.taken)
        if i < len(self.prefix):
            choice = self.prefix[i]
        else:
            rt, _ = self.b.check(self.pc + [cond])
            rf, _ = self.b.check(self.pc + [m.Not(cond)])
            if rt not in ("sat", "unsat") or rf not in ("sat", "unsat"):
                raise Unsupported("solver answered %s/%s on a branch condition" % (rt, rf))
            if rt == "sat" and rf == "sat":
                choice = True
                self.forks.append(i)
            elif rt == "sat":
                choice = True
            elif rf == "sat":
                choice = False
            else:
                raise Unsupported("infeasible path")
        self.taken.append(choice)
        self.pc.append(cond if choice else m.Not(cond))
        return choice


def explore(backend, fn, max_paths=200):
    """Runs fn(path) for every feasible decision vector. fn returns (property_term, info).
    Returns dict(verdict, paths, model, reason)."""
    stack = [[]]
    paths = 0
    while stack:
        prefix = stack.pop()
        p = Path(backend, prefix)
        Path.cur = p
        try:
            prop, info = fn(p)
        except Unsupported as e:
            return {"verdict": "INCONCLUSIVE", "paths": paths, "reason": "outside zproxy's subset: %s" % e}
        except Exception as e:
            # e.g. the code under test now uses an operation the proxies do not model (AttributeError on a proxy), or it
            # raised on this path: E2 gives no verdict (the E1 layer decides), it never raises an alarm on its own here
            return {"verdict": "INCONCLUSIVE", "paths": paths, "reason": "lemma raised %s: %s" % (type(e).__name__, e)}
        finally:
            Path.cur = None
        paths += 1
        for i in p.forks:
            stack.append(p.taken[:i] + [False])
        if prop is True:
            pass
        elif prop is False:
            r, model = backend.check(p.pc)
            if r == "sat":
                return {"verdict": "REFUTED", "paths": paths, "model": _model_str(model), "info": info,
                        "decisions": p.taken}
            if r != "unsat":
                return {"verdict": "INCONCLUSIVE", "paths": paths, "reason": "solver said %s" % r}
        else:
            r, model = backend.check(p.pc + [backend.m.Not(prop)])
            if r == "sat":
                return {"verdict": "REFUTED", "paths": paths, "model": _model_str(model), "info": info,
                        "decisions": p.taken}
            if r != "unsat":
                return {"verdict": "INCONCLUSIVE", "paths": paths, "reason": "solver said %s on the final assertion" % r}
        if paths > max_paths:
            return {"verdict": "INCONCLUSIVE", "paths": paths, "reason": "more than %d paths" % max_paths}
    return {"verdict": "CONFIRMED", "paths": paths}


def _model_str(model):
    try:
        return str(model)[:1500]
    except Exception:
        return "<model unavailable>"


# ---------------------------------------------------------------------------------------------
# sets of tags (z3)

class SetWorld:
    def __init__(self, backend):
        self.b = backend
        m = backend.m
        self.Tag = m.DeclareSort("Tag")
        self.empty = m.EmptySet(self.Tag)

    def var(self, name):
        return ZSet(self, self.b.m.Const(name, self.b.m.SetSort(self.Tag)))

    def term(self, x):
        if isinstance(x, ZSet):
            return x.v
        if x is None or (isinstance(x, (tuple, list, set, frozenset)) and len(x) == 0):
            return self.empty
        raise Unsupported("cannot turn %r into a symbolic set" % (x,))

    def factory(self):
        world = self

        def make(x=None):
            return ZSet(world, world.term(x))
        return make


class ZSet:
    """Mutable symbolic set with Python object identity (aliasing is observable)."""
    __hash__ = None

    def __init__(self, world, v):
        self.w, self.v = world, v

    def update(self, *others):
        for o in others:
            self.v = self.w.b.m.SetUnion(self.v, self.w.term(o))

    def difference_update(self, *others):
        for o in others:
            self.v = self.w.b.m.SetDifference(self.v, self.w.term(o))

    def __or__(self, o):
        return ZSet(self.w, self.w.b.m.SetUnion(self.v, self.w.term(o)))

    def __sub__(self, o):
        return ZSet(self.w, self.w.b.m.SetDifference(self.v, self.w.term(o)))

    def __and__(self, o):
        return ZSet(self.w, self.w.b.m.SetIntersect(self.v, self.w.term(o)))

    def copy(self):
        return ZSet(self.w, self.v)

    def __bool__(self):
        return Path.cur.decide(self.v != self.w.empty)

    def __eq__(self, o):
        if not isinstance(o, ZSet):
            return False
        return Path.cur.decide(self.v == o.v)

    def __ne__(self, o):
        return not self.__eq__(o)

    def __iter__(self):
        raise Unsupported("iteration over a symbolic set")

    def __len__(self):
        raise Unsupported("len() of a symbolic set")

    def __repr__(self):
        return "<ZSet>"


# ---------------------------------------------------------------------------------------------
# strings (cvc5)

class StrWorld:
    def __init__(self, backend):
        self.b = backend

    def var(self, name):
        return ZStr(self, self.b.m.String(name))

    def term(self, x):
        if isinstance(x, ZStr):
            return x.v
        if isinstance(x, str):
            return self.b.m.StringVal(x)
        raise Unsupported("cannot turn %r into a symbolic string" % (x,))


class ZInt:
    def __init__(self, world, v):
        self.w, self.v = world, v

    def __add__(self, k):
        return ZInt(self.w, self.v + (k.v if isinstance(k, ZInt) else k))

    __radd__ = __add__

    def __index__(self):
        raise Unsupported("a symbolic int used as a concrete index")


class _Split:
    def __init__(self, s, sep):
        self.s, self.sep = s, sep

    def __getitem__(self, i):
        if i != 0:
            raise Unsupported("split()[%r]" % (i,))
        m = self.s.w.b.m
        v, sep = self.s.v, self.s.w.term(self.sep)
        idx = m.IndexOf(v, sep, 0)
        return ZStr(self.s.w, m.If(m.Contains(v, sep), m.SubString(v, 0, idx), v))


class ZStr:
    __hash__ = None

    def __init__(self, world, v):
        self.w, self.v = world, v

    def split(self, sep=None):
        if sep is None:
            raise Unsupported("split() on whitespace")
        return _Split(self, sep)

    def zlen(self):
        return ZInt(self.w, self.w.b.m.Length(self.v))

    def __len__(self):
        raise Unsupported("len() of a symbolic string (module `len` must be shadowed with zproxy.zlen)")

    def __getitem__(self, sl):
        m = self.w.b.m
        if isinstance(sl, slice) and sl.stop is None and sl.step is None:
            start = sl.start.v if isinstance(sl.start, ZInt) else (sl.start or 0)
            n = m.Length(self.v)
            return ZStr(self.w, m.If(start >= n, m.StringVal(""), m.SubString(self.v, start, n - start)))
        raise Unsupported("string indexing %r" % (sl,))

    def __add__(self, o):
        return ZStr(self.w, self.w.b.m.Concat(self.v, self.w.term(o)))

    def __radd__(self, o):
        return ZStr(self.w, self.w.b.m.Concat(self.w.term(o), self.v))

    def __contains__(self, sub):
        return Path.cur.decide(self.w.b.m.Contains(self.v, self.w.term(sub)))

    def __bool__(self):
        return Path.cur.decide(self.w.b.m.Length(self.v) > 0)

    def __eq__(self, o):
        if o is None:
            return False
        if isinstance(o, (ZStr, str)):
            return Path.cur.decide(self.v == self.w.term(o))
        return False

    def __ne__(self, o):
        return not self.__eq__(o)

    def __repr__(self):
        return "<ZStr>"


def zlen(x):
    if isinstance(x, ZStr):
        return x.zlen()
    return len(x)


class ZMap:
    """Insertion-ordered map with possibly symbolic keys: lookups fork on key equality (newest first)."""

    def __init__(self):
        self.items = []

    def __setitem__(self, k, v):
        self.items.append((k, v))

    def _find(self, k):
        for kk, vv in reversed(self.items):
            if kk is None or k is None:
                if kk is None and k is None:
                    return (vv,)
                continue
            if isinstance(kk, ZStr) or isinstance(k, ZStr):
                eq = (kk == k) if isinstance(kk, ZStr) else (k == kk)
            else:
                eq = kk == k
            if eq:
                return (vv,)
        return None

    def __contains__(self, k):
        return self._find(k) is not None

    def __getitem__(self, k):
        r = self._find(k)
        if r is None:
            raise KeyError(k)
        return r[0]
