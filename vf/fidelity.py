"""Engine fidelity self-check (DESIGN 3.1b): the harness's observation function is computed
natively for a grid of concrete decision vectors, then the same vectors are explored under the
configured CrossHair with the oracle 'observation == native table'."""
import random

from vf import ch

_VECTORS = []
_TABLE = []
_OBSERVE = None


def pick(h, seed, n):
    vecs = list(h.fidelity(seed))
    rng = random.Random(seed)
    if len(vecs) > n:
        head = vecs[: n // 2]
        tail = vecs[n // 2:]
        rng.shuffle(tail)
        vecs = head + tail[: n - len(head)]
    return [list(v) for v in vecs]


def native_table(h, vecs):
    out = []
    for v in vecs:
        try:
            out.append(repr(h.observe(*v)))
        except Exception as e:
            out.append("raised %s" % type(e).__name__)
    return out


def fid_fn(i: int) -> bool:
    """
    post: _
    """
    try:
        k = ch.conc(i, len(_VECTORS))
    except ch.Prune:
        return True
    try:
        o = repr(_OBSERVE(*_VECTORS[k]))
    except Exception as e:
        o = "raised %s" % type(e).__name__
    ch.STATS["paths"] += 1
    if o != _TABLE[k]:
        ch.STATS["samples"].append({"vector": repr(_VECTORS[k]), "native": _TABLE[k][:400], "engine": o[:400]})
        return False
    return True


def run_under_engine(h, vectors, table, timeout):
    global _VECTORS, _TABLE, _OBSERVE
    from vf import engine
    _VECTORS, _TABLE, _OBSERVE = [tuple(v) for v in vectors], table, h.observe
    res = engine.analyze(fid_fn, timeout)
    if res["verdict"] != "CONFIRMED" and ch.STATS["samples"]:
        res["why"] = "mismatch: %r" % (ch.STATS["samples"][-1],)
    return res
