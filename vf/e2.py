"""E2 lemmas (zproxy): the real testtools code runs on proxies carrying SMT terms; every lemma is written
once, over an abstract 'world', and is executed (a) symbolically - unbounded sets / strings, solver decides -
and (b) natively over a small exhaustive concrete domain when a counterexample has to be replayed."""
import contextlib
import itertools
import threading
import time

from vf import zproxy as Z


@contextlib.contextmanager
def shadow(pairs):
    """Temporarily set module globals (harness-side monkeypatch; nothing in /repo is edited)."""
    saved = []
    missing = object()
    try:
        for mod, name, val in pairs:
            saved.append((mod, name, mod.__dict__.get(name, missing)))
            setattr(mod, name, val)
        yield
    finally:
        for mod, name, old in reversed(saved):
            if old is missing:
                delattr(mod, name)
            else:
                setattr(mod, name, old)


# ---------------------------------------------------------------------------------------------
# worlds: symbolic and concrete

class SymSets:
    symbolic = True

    def __init__(self):
        self.b = Z.Backend("z3")
        self.w = Z.SetWorld(self.b)

    def var(self, name):
        return self.w.var(name)

    def empty(self):
        return Z.ZSet(self.w, self.w.empty)

    def same(self, a, b):
        if a is None or b is None:
            return a is None and b is None
        return a.v == b.v

    def disjoint(self, a, b):
        return self.b.m.SetIntersect(a.v, b.v) == self.w.empty

    def is_empty(self, a):
        return a.v == self.w.empty

    def all(self, terms):
        terms = [t for t in terms if t is not True]
        if any(t is False for t in terms):
            return False
        return self.b.m.And(*terms) if terms else True

    def implies(self, a, b):
        return self.b.m.Implies(a, b)

    def factory(self):
        return self.w.factory()

    def assume(self, cond):
        if cond is not True:
            Z.Path.cur.assume(cond)


class Skip(Exception):
    pass


class ConcSets:
    symbolic = False

    def __init__(self, assignment):
        self.assignment = assignment

    def var(self, name):
        return set(self.assignment[name])

    def empty(self):
        return set()

    def same(self, a, b):
        if a is None or b is None:
            return a is None and b is None
        return set(a) == set(b)

    def disjoint(self, a, b):
        return not (set(a) & set(b))

    def is_empty(self, a):
        return not a

    def all(self, terms):
        return all(terms)

    def implies(self, a, b):
        return (not a) or b

    def factory(self):
        return set

    def assume(self, cond):
        if not cond:
            raise Skip()


def run_set_lemma(name, lemma, varnames, modules_to_shadow):
    """lemma(world, path_or_None) -> (assumptions_list, property). Returns a result dict."""
    world = SymSets()
    t0 = time.time()

    def fn(path):
        pairs = []
        mk = world.factory()
        for mod in modules_to_shadow:
            pairs += [(mod, "set", mk), (mod, "frozenset", mk)]
        with shadow(pairs):
            prop = lemma(world)
        return prop, None
    res = Z.explore(world.b, fn)
    if res["verdict"] == "CONFIRMED":
        # reachability twin: with the property replaced by False the solver must find the path condition satisfiable
        def twin(path):
            prop, info = fn(path)
            return False, info
        tw = Z.explore(world.b, twin)
        res["twin_refuted"] = tw["verdict"] == "REFUTED"
        if not res["twin_refuted"]:
            res["verdict"] = "INCONCLUSIVE"
            res["reason"] = "vacuous: assumptions unsatisfiable or assertion never reached"
    res.update(name=name, backend="z3", queries=world.b.queries, solver_time_s=round(world.b.time_s, 3),
               wall_s=round(time.time() - t0, 3), variables=varnames)
    if res["verdict"] == "REFUTED":
        # concretise: exhaustive search over subsets of a 2-element universe, native Python sets, real code
        universe = ["t1", "t2"]
        subsets = [set(c) for r in range(3) for c in itertools.combinations(universe, r)]
        res["replay_violates"] = False
        for combo in itertools.product(subsets, repeat=len(varnames)):
            cw = ConcSets(dict(zip(varnames, combo)))
            try:
                prop = lemma(cw)
            except Skip:
                continue
            except Exception as e:
                prop = False
                res["replay_exception"] = repr(e)
            if not prop:
                res["replay_violates"] = True
                res["model"] = {"concrete_witness": {k: sorted(v) for k, v in zip(varnames, combo)}, "solver_model": res.get("model")}
                break
    return res


# ---------------------------------------------------------------------------------------------
# C17 lemmas

def c17_lemmas():
    from testtools import tags as tags_mod
    from testtools.testresult import doubles, real
    from testtools import PlaceHolder
    out = []

    def l1_tagcontext(w):
        T, new, gone = w.var("T"), w.var("new"), w.var("gone")
        parent = tags_mod.TagContext()
        parent.change_tags(T, w.empty())
        child = tags_mod.TagContext(parent)
        start = child.get_current_tags()
        internal_before = child._tags
        ret = child.change_tags(new, gone)
        want = (T | new) - gone
        cur = child.get_current_tags()
        props = [w.same(start, T), w.same(ret, want), w.same(cur, want), w.same(parent.get_current_tags(), T),
                 cur is not child._tags, ret is not child._tags, child._tags is internal_before]
        return w.all(props)
    out.append(run_set_lemma("C17.L1 TagContext: child starts with the parent's tags; change_tags = (T | new) - gone; "
                             "parent unchanged; fresh objects returned", l1_tagcontext, ["T", "new", "gone"], [tags_mod]))

    def l2_merge(w):
        e0, e1, new, gone, S = w.var("e0"), w.var("e1"), w.var("new"), w.var("gone"), w.var("S")
        w.assume(w.disjoint(e0, e1))
        w.assume(w.disjoint(new, gone))
        N, G = real._merge_tags((e0, e1), (new, gone))
        seq = (((S | e0) - e1) | new) - gone
        merged = (S | N) - G
        return w.all([w.same(seq, merged), w.disjoint(N, G)])
    out.append(run_set_lemma("C17.L2 _merge_tags: applying the merged pair equals applying the two changes in sequence; "
                             "the merged pair stays disjoint", l2_merge, ["e0", "e1", "new", "gone", "S"], [real]))

    class Seen(doubles.ExtendedTestResult):
        def __init__(self):
            super().__init__()
            self.at_outcome = None

        def addSuccess(self, test, details=None):
            self.at_outcome = self.current_tags
            super().addSuccess(test, details=details)

    def l3_tfr_bracket(w):
        g1n, g1g, ln, lg = w.var("g1n"), w.var("g1g"), w.var("ln"), w.var("lg")
        w.assume(w.disjoint(g1n, g1g))
        w.assume(w.disjoint(ln, lg))
        target = Seen()
        tfr = real.ThreadsafeForwardingResult(target, threading.Semaphore(1))
        tfr.startTestRun()
        tfr.tags(g1n, g1g)                       # run-level change
        test = PlaceHolder("t")
        tfr.startTest(test)
        tfr.tags(ln, lg)                         # test-local change
        reporter_at_outcome = tfr.current_tags
        tfr.addSuccess(test)
        tfr.stopTest(test)
        after = tfr.current_tags
        want_outcome = (((w.empty() | g1n) - g1g) | ln) - lg
        want_after = (w.empty() | g1n) - g1g
        props = [w.same(reporter_at_outcome, want_outcome), w.same(target.at_outcome, want_outcome),
                 w.same(after, want_after), w.is_empty(target.current_tags)]
        return w.all(props)
    out.append(run_set_lemma("C17.L3 ThreadsafeForwardingResult: run-level tags, startTest, test-local tags, outcome, stopTest "
                             "with arbitrary tag sets: target's tags at the outcome = reporter's current_tags; nothing leaks",
                             l3_tfr_bracket, ["g1n", "g1g", "ln", "lg"], [tags_mod, real]))

    def l4_tfr_two_tests(w):
        gn, ln1, ln2 = w.var("gn"), w.var("ln1"), w.var("ln2")
        target = Seen()
        tfr = real.ThreadsafeForwardingResult(target, threading.Semaphore(1))
        tfr.tags(w.var("stale"), w.empty())      # before the run starts
        tfr.startTestRun()
        tfr.tags(gn, w.empty())
        seen = []
        for ln in (ln1, ln2):
            test = PlaceHolder("t")
            tfr.startTest(test)
            tfr.tags(ln, w.empty())
            tfr.addSuccess(test)
            tfr.stopTest(test)
            seen.append(target.at_outcome)
        return w.all([w.same(seen[0], gn | ln1), w.same(seen[1], gn | ln2), w.same(tfr.current_tags, gn | w.empty())])
    out.append(run_set_lemma("C17.L4 ThreadsafeForwardingResult over two tests after a startTestRun that follows earlier tags: "
                             "each test sees run-level + its own tags only", l4_tfr_two_tests, ["stale", "gn", "ln1", "ln2"],
                             [tags_mod, real]))

    def l6_tfr_inductive_step(w):
        """One step from an ARBITRARY forwarder state satisfying the invariant
        Inv: buffered run-level pair (G0, G1) disjoint and the reporter's run-level tags == G0 (the pair applied to the
        empty set) - hence histories of any length over any tags, for one forwarder."""
        G0, G1, n, g, ln, lg = w.var("G0"), w.var("G1"), w.var("n"), w.var("g"), w.var("ln"), w.var("lg")
        w.assume(w.disjoint(G0, G1))
        w.assume(w.disjoint(n, g))
        w.assume(w.disjoint(ln, lg))
        target = Seen()
        tfr = real.ThreadsafeForwardingResult(target, threading.Semaphore(1))
        tfr.startTestRun()
        # construct the state directly (drive the unit, skip the history that led here)
        tfr._global_tags = (G0.copy(), G1.copy())
        tfr._tags = tags_mod.TagContext()
        tfr._tags.change_tags(G0.copy(), w.empty())
        # step 1: a run-level tags() call preserves the invariant
        tfr.tags(n, g)
        N0, N1 = tfr._global_tags
        inv = [w.disjoint(N0, N1), w.same(tfr.current_tags, (G0 | n) - g), w.same(tfr.current_tags, (w.empty() | N0) - N1)]
        # step 2: a whole test bracket from that state
        test = PlaceHolder("t")
        tfr.startTest(test)
        tfr.tags(ln, lg)
        at_outcome = tfr.current_tags
        tfr.addSuccess(test)
        tfr.stopTest(test)
        N0b, N1b = tfr._global_tags
        props = inv + [w.same(target.at_outcome, at_outcome), w.same(at_outcome, (((G0 | n) - g) | ln) - lg),
                       w.same(tfr.current_tags, (G0 | n) - g), w.same(N0b, N0), w.same(N1b, N1),
                       w.is_empty(target.current_tags)]
        return w.all(props)
    out.append(run_set_lemma("C17.L6 ThreadsafeForwardingResult inductive step from an arbitrary state satisfying the invariant "
                             "(buffered pair disjoint, reporter's run-level tags = buffered additions): a run-level tags() call and a "
                             "whole test bracket preserve it and the target sees the reporter's tags at the outcome",
                             l6_tfr_inductive_step, ["G0", "G1", "n", "g", "ln", "lg"], [tags_mod, real]))

    def l5_testresult_scoping(w):
        g, l1 = w.var("g"), w.var("l1")
        r = real.TestResult()
        r.startTestRun()
        r.tags(g, w.empty())
        test = PlaceHolder("t")
        r.startTest(test)
        r.tags(l1, g)
        inside = r.current_tags
        r.stopTest(test)
        outside = r.current_tags
        r.startTestRun()
        return w.all([w.same(inside, (g | l1) - g), w.same(outside, g | w.empty()), w.is_empty(r.current_tags)])
    out.append(run_set_lemma("C17.L5 TestResult: test-local tag changes are discarded at stopTest, run-level ones persist until "
                             "startTestRun", l5_testresult_scoping, ["g", "l1"], [tags_mod, real]))
    return out


# ---------------------------------------------------------------------------------------------
# C11 lemma: StreamTagger on arbitrary tag sets

def c11_lemmas():
    from testtools.testresult import real

    class Sink:
        def __init__(self):
            self.got = []

        def startTestRun(self):
            pass

        def stopTestRun(self):
            pass

        def status(self, **kw):
            self.got.append(kw)

    def l1_tagger(w):
        tin, add, disc = w.var("tin"), w.var("add"), w.var("disc")
        s1, s2 = Sink(), Sink()
        tagger = real.StreamTagger([s1, s2], add=add, discard=disc)
        before = tin.copy()
        tagger.status(test_id="x", test_tags=tin)
        props = [w.same(tin, before), len(s1.got) == 1, len(s2.got) == 1]
        for s in (s1, s2):
            got = s.got[0]["test_tags"] if s.got else None
            want = (before | add) - disc
            if got is None:
                props.append(w.is_empty(want))
            else:
                props.append(w.same(got, want))
                props.append(got is not tin)
                if w.symbolic:
                    props.append(w.b.m.Not(w.is_empty(want)))
                else:
                    props.append(bool(want))
        return w.all(props)

    def l1_wrap(w):
        return l1_tagger(w)
    res = run_set_lemma("C11.L1 StreamTagger.status on an arbitrary tag set: out = (in | add) - discard, None iff empty, the "
                        "caller's set unchanged and not the object forwarded", l1_wrap, ["tin", "add", "disc"], [real])
    return [res]


# ---------------------------------------------------------------------------------------------
# C18 lemmas: unbounded strings (cvc5)

def run_str_lemma(name, lemma, varnames):
    from testtools.testresult import real
    b = Z.Backend("cvc5")
    world = Z.StrWorld(b)
    t0 = time.time()

    def fn(path):
        with shadow([(real, "len", Z.zlen)]):
            prop = lemma(world, path)
        return prop, None
    res = Z.explore(b, fn)
    if res["verdict"] == "CONFIRMED":
        def twin(path):
            prop, info = fn(path)
            return False, info
        tw = Z.explore(b, twin)
        res["twin_refuted"] = tw["verdict"] == "REFUTED"
        if not res["twin_refuted"]:
            res["verdict"] = "INCONCLUSIVE"
            res["reason"] = "vacuous: assumptions unsatisfiable or assertion never reached"
    res.update(name=name, backend="cvc5", queries=b.queries, solver_time_s=round(b.time_s, 3),
               wall_s=round(time.time() - t0, 3), variables=varnames)
    if res["verdict"] == "REFUTED":
        res["replay_violates"] = None      # set by the caller's concrete replay
    return res


class _StrSink:
    def __init__(self):
        self.got = []

    def status(self, **kw):
        self.got.append(kw)

    def startTestRun(self):
        pass

    def stopTestRun(self):
        pass


class _Q:
    def __init__(self):
        self.items = []

    def put(self, x):
        self.items.append(x)


def c18_concrete_pushpop(code, orig):
    from testtools.testresult import real
    q = _Q()
    real.StreamToQueue(q, code).status(test_id="t", route_code=orig)
    sink = _StrSink()
    r = real.StreamResultRouter()
    r.add_rule(sink, "route_code_prefix", route_prefix=code, consume_route=True)
    r.status(**{k: v for k, v in q.items[0].items() if k != "event"})
    return len(sink.got) == 1 and sink.got[0]["route_code"] == orig


def c18_lemmas():
    from testtools.testresult import real
    out = []

    def l4_pushpop(w, path):
        m = w.b.m
        code, orig = w.var("code"), w.var("orig")
        path.assume(m.Not(m.Contains(code.v, m.StringVal("/"))))
        path.assume(m.Length(orig.v) > 0)
        q = _Q()
        real.StreamToQueue(q, code).status(test_id="t", route_code=orig)
        ev = {k: v for k, v in q.items[0].items() if k != "event"}
        sink, other = _StrSink(), _StrSink()
        router = real.StreamResultRouter(other)
        router._route_code_prefixes = Z.ZMap()
        router._test_ids = Z.ZMap()
        router.add_rule(sink, "route_code_prefix", route_prefix=code, consume_route=True)
        router.status(**ev)
        if len(sink.got) != 1 or other.got:
            return False
        rc = sink.got[0]["route_code"]
        return False if rc is None else (rc.v == orig.v)
    out.append(run_str_lemma("C18.L4 StreamToQueue(code) then a consuming rule for code restores the original route code, for "
                             "every code without '/' and every non-empty original route code", l4_pushpop, ["code", "orig"]))

    def l4b_pushpop_none(w, path):
        m = w.b.m
        code = w.var("code")
        path.assume(m.Not(m.Contains(code.v, m.StringVal("/"))))
        q = _Q()
        real.StreamToQueue(q, code).status(test_id="t", route_code=None)
        ev = {k: v for k, v in q.items[0].items() if k != "event"}
        sink = _StrSink()
        router = real.StreamResultRouter()
        router._route_code_prefixes = Z.ZMap()
        router._test_ids = Z.ZMap()
        router.add_rule(sink, "route_code_prefix", route_prefix=code, consume_route=True)
        router.status(**ev)
        ok = len(sink.got) == 1 and sink.got[0]["route_code"] is None
        return ok
    out.append(run_str_lemma("C18.L4b ... and an event without route code arrives without route code again, for every code "
                             "without '/'", l4b_pushpop_none, ["code"]))

    def l1_precedence(w, path):
        m = w.b.m
        k1, k2, r, t, idk = w.var("k1"), w.var("k2"), w.var("r"), w.var("t"), w.var("idk")
        path.assume(m.Not(m.Contains(k1.v, m.StringVal("/"))))
        path.assume(m.Not(m.Contains(k2.v, m.StringVal("/"))))
        path.assume(k1.v != k2.v)
        s1, s2, sid, fb = _StrSink(), _StrSink(), _StrSink(), _StrSink()
        router = real.StreamResultRouter(fb)
        router._route_code_prefixes = Z.ZMap()
        router._test_ids = Z.ZMap()
        router.add_rule(s1, "route_code_prefix", route_prefix=k1, consume_route=False)
        router.add_rule(s2, "route_code_prefix", route_prefix=k2, consume_route=True)
        router.add_rule(sid, "test_id", test_id=idk)
        tok = object()
        router.status(test_id=t, route_code=r, file_bytes=tok)
        counts = [len(s.got) for s in (s1, s2, sid, fb)]
        first = m.If(m.Contains(r.v, m.StringVal("/")), m.SubString(r.v, 0, m.IndexOf(r.v, m.StringVal("/"), 0)), r.v)
        # reference: route rule for the first segment, else id rule, else fallback
        want = m.If(first == k1.v, 0, m.If(first == k2.v, 1, m.If(t.v == idk.v, 2, 3)))
        if sum(counts) != 1:
            return False
        got_i = counts.index(1)
        got = (s1, s2, sid, fb)[got_i].got[0]
        props = [want == got_i, got["file_bytes"] is tok, got["test_id"] is t]
        if got_i == 1:
            rest = m.If(m.Contains(r.v, m.StringVal("/")),
                        m.SubString(r.v, m.IndexOf(r.v, m.StringVal("/"), 0) + 1, m.Length(r.v)), m.StringVal(""))
            if got["route_code"] is None:
                props.append(m.Length(rest) == 0)
            else:
                props.append(got["route_code"].v == rest)
                props.append(m.Length(rest) > 0)
        else:
            props.append(got["route_code"] is r)
        props = [p for p in props if p is not True]
        if any(p is False for p in props):
            return False
        return m.And(*props)
    out.append(run_str_lemma("C18.L1-L3 two route rules (one consuming) + a test-id rule + fallback with arbitrary string keys, "
                             "arbitrary route code and test id: exactly one sink, chosen by the documented precedence; the other "
                             "fields are the identical objects; a consuming rule strips exactly the first segment",
                             l1_precedence, ["k1", "k2", "r", "t", "idk"]))

    def l5_nested_pushpop(w, path):
        m = w.b.m
        c1, c2, orig = w.var("c1"), w.var("c2"), w.var("orig")
        path.assume(m.Not(m.Contains(c1.v, m.StringVal("/"))))
        path.assume(m.Not(m.Contains(c2.v, m.StringVal("/"))))
        path.assume(m.Length(orig.v) > 0)
        q1, q2 = _Q(), _Q()
        real.StreamToQueue(q1, c1).status(test_id="t", route_code=orig)          # inner worker
        ev = {k: v for k, v in q1.items[0].items() if k != "event"}
        real.StreamToQueue(q2, c2).status(**ev)                                  # outer multiplexer
        ev = {k: v for k, v in q2.items[0].items() if k != "event"}
        sink = _StrSink()
        inner = real.StreamResultRouter()
        inner._route_code_prefixes, inner._test_ids = Z.ZMap(), Z.ZMap()
        inner.add_rule(sink, "route_code_prefix", route_prefix=c1, consume_route=True)
        outer = real.StreamResultRouter()
        outer._route_code_prefixes, outer._test_ids = Z.ZMap(), Z.ZMap()
        outer.add_rule(inner, "route_code_prefix", route_prefix=c2, consume_route=True)
        outer.status(**ev)
        if len(sink.got) != 1 or sink.got[0]["route_code"] is None:
            return False
        return sink.got[0]["route_code"].v == orig.v
    out.append(run_str_lemma("C18.L5 two nested StreamToQueue prefixes are popped in inverse order by two nested consuming routers, "
                             "for all codes without '/' and every non-empty original route code", l5_nested_pushpop,
                             ["c1", "c2", "orig"]))

    def l_slash_rejected(w, path):
        m = w.b.m
        k = w.var("k")
        router = real.StreamResultRouter()
        router._route_code_prefixes = Z.ZMap()
        raised = False
        try:
            router.add_rule(_StrSink(), "route_code_prefix", route_prefix=k)
        except TypeError as e:
            if isinstance(e, Z.Unsupported):
                raise
            raised = True
        has = m.Contains(k.v, m.StringVal("/"))
        return has if raised else m.Not(has)
    out.append(run_str_lemma("C18.L0 add_rule rejects exactly the prefixes that contain '/'", l_slash_rejected, ["k"]))
    for r in out:
        if r["verdict"] == "REFUTED":
            # concrete replay over a small alphabet through the public API
            alphabet = ["a", "ab", "a/b", "0", "b/a/c", "/", "a/"]
            bad = None
            if "L4 " in r["name"] or "L4b" in r["name"]:
                for code in [a for a in alphabet if "/" not in a]:
                    for orig in ([None] if "L4b" in r["name"] else alphabet):
                        try:
                            if not c18_concrete_pushpop(code, orig):
                                bad = (code, orig)
                        except Exception as e:
                            bad = (code, orig, repr(e))
                        if bad:
                            break
                    if bad:
                        break
            r["replay_violates"] = bool(bad)
            if bad:
                r["model"] = {"concrete_witness": bad, "solver_model": r.get("model")}
    return out


def negative_controls():
    """Self-test of the E2 machinery: a lemma that is false must come back REFUTED with a concrete witness."""
    from testtools.testresult import real

    def l2_without_precondition(w):
        e0, e1, new, gone, S = w.var("e0"), w.var("e1"), w.var("new"), w.var("gone"), w.var("S")
        N, G = real._merge_tags((e0, e1), (new, gone))
        return w.same((((S | e0) - e1) | new) - gone, (S | N) - G)
    r = run_set_lemma("control: _merge_tags composition WITHOUT the disjointness precondition (must be refuted)",
                      l2_without_precondition, ["e0", "e1", "new", "gone", "S"], [real])
    return r["verdict"] == "REFUTED" and bool(r.get("replay_violates")), r


def summarise(lemmas):
    ok, ctl = negative_controls()
    if not ok:
        for l in lemmas:
            l["verdict"] = "INCONCLUSIVE"
            l["reason"] = "E2 negative control was not refuted: machinery not trusted"
    return {"negative_control_refuted": ok, "lemmas": lemmas, "queries": sum(l.get("queries", 0) for l in lemmas),
            "solver_time_s": round(sum(l.get("solver_time_s", 0) for l in lemmas), 3)}
