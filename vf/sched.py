"""Deterministic scheduler (DESIGN 1.2 / A.3): real daemon threads, exactly one runs at a time; every
synchronisation point hands control to a controller that picks the next runnable thread from the
(symbolic) schedule. Blocked/ready sets are explicit, so a deadlock is an observable state."""
import threading


class Deadlock(Exception):
    pass


class _Abort(BaseException):
    """Raised inside a worker at its next yield point when the path is over."""


class Sched:
    def __init__(self, chooser):
        self.chooser = chooser          # chooser(n) -> index in range(n); called only when n > 1
        self.go = {}
        self.ctl = threading.Semaphore(0)
        self.state = {}                 # tid -> 'ready' | 'blocked' | 'done'
        self.cond = {}
        self.threads = {}
        self.by_ident = {}
        self.errors = {}
        self.aborting = False
        self.next_tid = 0
        self.trace = []                 # (tid, label) of every scheduling decision
        self.choices = 0

    # --- called from the controller (main thread) ----------------------------------------------
    def spawn(self, fn, name=None):
        tid = self.next_tid
        self.next_tid += 1
        self.go[tid] = threading.Semaphore(0)
        self.state[tid] = "ready"

        def body():
            self.by_ident[threading.get_ident()] = tid
            self.go[tid].acquire()
            try:
                if self.aborting:
                    raise _Abort()
                fn()
            except _Abort:
                pass
            except BaseException as e:  # noqa
                self.errors[tid] = e
            finally:
                self.state[tid] = "done"
                self.ctl.release()

        t = threading.Thread(target=body, daemon=True, name=name or "w%d" % tid)
        self.threads[tid] = t
        t.start()
        return tid

    def runnable(self):
        out = []
        for tid in sorted(self.state):
            st = self.state[tid]
            if st == "ready":
                out.append(tid)
            elif st == "blocked" and self.cond[tid]():
                out.append(tid)
        return out

    def run(self, until=None):
        """Run until every thread is done (or until() is true). Raises Deadlock."""
        while True:
            if until is not None and until():
                return
            if all(s == "done" for s in self.state.values()):
                return
            ready = self.runnable()
            if not ready:
                raise Deadlock("no runnable thread: %r" % ({t: s for t, s in self.state.items() if s != "done"},))
            if len(ready) > 1:
                self.choices += 1
                pick = ready[self.chooser(len(ready))]
            else:
                pick = ready[0]
            self.trace.append(pick)
            self.state[pick] = "ready"
            self.go[pick].release()
            self.ctl.acquire()

    def shutdown(self):
        """Abort every unfinished worker (at its next yield point) and join them."""
        self.aborting = True
        for tid, st in list(self.state.items()):
            if st != "done":
                self.go[tid].release()
        for tid, t in self.threads.items():
            t.join(timeout=5)

    # --- called from workers -----------------------------------------------------------------------
    def me(self):
        return self.by_ident.get(threading.get_ident())

    def yield_point(self, label=None):
        tid = self.me()
        if tid is None:
            return                      # not a scheduled thread (e.g. the controller itself)
        if self.aborting:
            raise _Abort()              # never wait again once the path is over (e.g. release() in a finally)
        self.ctl.release()
        self.go[tid].acquire()
        if self.aborting:
            raise _Abort()

    def block(self, cond):
        tid = self.me()
        if tid is None:
            if not cond():
                raise Deadlock("controller thread would block")
            return
        while not cond():
            if self.aborting:
                raise _Abort()
            self.cond[tid] = cond
            self.state[tid] = "blocked"
            self.ctl.release()
            self.go[tid].acquire()
            if self.aborting:
                raise _Abort()
        self.state[tid] = "ready"


class FakeSemaphore:
    def __init__(self, sched, value=1):
        self.sched = sched
        self.count = value
        self.acquires = 0
        self.releases = 0

    def acquire(self, blocking=True, timeout=None):
        self.sched.yield_point("sem.acquire")
        self.sched.block(lambda: self.count > 0)
        self.count -= 1
        self.acquires += 1
        return True

    def release(self):
        self.count += 1
        self.releases += 1
        self.sched.yield_point("sem.release")

    __enter__ = acquire

    def __exit__(self, *a):
        self.release()


class FakeQueue:
    def __init__(self, sched):
        self.sched = sched
        self.items = []

    def put(self, x):
        self.items.append(x)
        self.sched.yield_point("queue.put")

    def get(self, block=True, timeout=None):
        self.sched.yield_point("queue.get")
        self.sched.block(lambda: len(self.items) > 0)
        return self.items.pop(0)


def make_fake_threading(sched):
    """A stand-in for the `threading` module as used by testtools.testsuite."""
    class FakeThread:
        def __init__(self, target=None, args=(), kwargs=None, name=None):
            self._target, self._args, self._kwargs = target, args, kwargs or {}
            self.tid = None
            self.name = name

        def start(self):
            self.tid = sched.spawn(lambda: self._target(*self._args, **self._kwargs), name=self.name)
            sched.yield_point("thread.start")

        def join(self, timeout=None):
            sched.yield_point("thread.join")
            sched.block(lambda: sched.state[self.tid] == "done")

        def is_alive(self):
            return sched.state.get(self.tid) != "done"

    import types
    ns = types.SimpleNamespace(Thread=FakeThread, Semaphore=lambda value=1: FakeSemaphore(sched, value))
    return ns
