"""Driver: shards -> process pool -> CrossHair in-process; twins; fidelity; replay; known findings;
evidence. Usage: python -m vf.driver C01 --tier quick | --replay <path>"""
import argparse
import hashlib
import importlib
import json
import multiprocessing as mp
import os
import random
import subprocess
import sys
import time
import traceback

ROOT = os.path.dirname(os.path.dirname(os.path.abspath(__file__)))
REPO = os.environ.get("VERIF_REPO", "/repo")
EXPLANATION = ("bounded symbolic execution of the implementation imported from /repo's working tree; "
               "an SMT solver (z3 via CrossHair; z3/cvc5 via zproxy for E2 lemmas) decides every "
               "branch feasibility and the final assertion; a shard is CONFIRMED only when its whole "
               "path tree is exhausted")


class Harness:
    def __init__(self, name, fn, shards, bounds, rule, sym=(), fidelity=None, observe=None,
                 describe=None, twin_fix=None, assumptions=()):
        self.name, self.fn, self.shards, self.bounds, self.rule = name, fn, shards, bounds, rule
        self.sym, self.fidelity, self.observe, self.describe = sym, fidelity, observe, describe
        self.twin_fix = twin_fix
        self.assumptions = list(assumptions)


def load_module(pid):
    return importlib.import_module("vf.harness.%s" % pid.lower())


def get_harness(pid, name):
    mod = load_module(pid)
    for h in mod.HARNESSES:
        if h.name == name:
            return h
    raise KeyError(name)


# ---------------------------------------------------------------------------------------------
# worker side

def _worker(conn, task):
    try:
        from vf import ch, engine
        kind = task["kind"]
        h = get_harness(task["pid"], task["harness"])
        ch.reset_stats()
        ch.FIX = dict(task.get("fix") or {})
        ch.TWIN = bool(task.get("twin"))
        ch.EXCLUDE = [(fid, eval("lambda v: " + expr, {})) for fid, expr in task.get("exclude", [])]
        if kind == "analyze":
            res = engine.analyze(h.fn, task["timeout"])
            if res.get("cex_args") is not None and ch.FIX:
                import inspect
                names = list(inspect.signature(h.fn).parameters)
                for k, val in ch.FIX.items():
                    if k in names:
                        res["cex_args"][names.index(k)] = val
        elif kind == "fidelity":
            from vf import fidelity
            res = fidelity.run_under_engine(h, task["vectors"], task["table"], task["timeout"])
        else:
            raise ValueError(kind)
        res["stats"] = ch.stats_summary()
        conn.send(res)
    except BaseException as e:  # noqa
        conn.send({"verdict": "ERROR", "why": "worker crashed: %r" % (e,),
                   "cex_traceback": traceback.format_exc()[-3000:], "stats": {}})
    finally:
        conn.close()


def run_pool(tasks, nproc=None, progress=None):
    """Run tasks (dicts) each in its own forked process; hard-kill on timeout+slack."""
    nproc = nproc or int(os.environ.get("VERIF_JOBS", "16"))
    ctx = mp.get_context("fork")
    pending = list(enumerate(tasks))
    running = {}
    results = [None] * len(tasks)
    while pending or running:
        while pending and len(running) < nproc:
            i, t = pending.pop(0)
            pc, cc = ctx.Pipe(duplex=False)
            p = ctx.Process(target=_worker, args=(cc, t), daemon=True)
            p.start()
            cc.close()
            running[i] = (p, pc, time.time(), t)
        time.sleep(0.05)
        for i in list(running):
            p, pc, t0, t = running[i]
            done = False
            if pc.poll():
                try:
                    results[i] = pc.recv()
                except EOFError:
                    results[i] = {"verdict": "ERROR", "why": "worker died", "stats": {}}
                done = True
            elif not p.is_alive():
                results[i] = {"verdict": "ERROR", "why": "worker died (exit %s)" % p.exitcode,
                              "stats": {}}
                done = True
            elif time.time() - t0 > t["timeout"] * 1.5 + 90:
                p.kill()
                results[i] = {"verdict": "INCONCLUSIVE", "why": "hard timeout", "stats": {}}
                done = True
            if done:
                p.join(timeout=5)
                if p.is_alive():
                    p.kill()
                pc.close()
                del running[i]
                results[i]["task"] = {k: t[k] for k in ("harness", "fix", "twin", "kind") if k in t}
                results[i]["elapsed_s"] = time.time() - t0
                if progress:
                    progress(i, results[i])
    return results


# ---------------------------------------------------------------------------------------------
# native replay (fresh interpreter)

def native_replay(pid, harness, args, tries=3):
    """Run the harness natively on concrete args. Returns (violates: bool|None, info)."""
    last = None
    for _ in range(tries):
        p = subprocess.run([sys.executable, "-m", "vf.replay", pid, harness, json.dumps(args)],
                           cwd=ROOT, capture_output=True, text=True, timeout=600)
        try:
            last = json.loads(p.stdout.strip().splitlines()[-1])
        except Exception:
            last = {"ok": None, "error": "replay crashed", "stderr": p.stderr[-2000:],
                    "stdout": p.stdout[-500:]}
        if last.get("ok") is False:
            return True, last
    if last.get("ok") is True:
        return False, last
    return None, last


def load_known(pid):
    path = os.path.join(ROOT, "known_findings.json")
    if not os.path.exists(path):
        return []
    with open(path) as f:
        data = json.load(f)
    return [e for e in data.get("findings", []) if e.get("property") == pid]


# ---------------------------------------------------------------------------------------------

def functions_encoded(pid, mod, seed):
    """Names of /repo functions executed by native runs of sample vectors (profile hook)."""
    names = set()
    prefix = os.path.realpath(REPO) + os.sep

    def prof(frame, event, arg):
        if event == "call":
            co = frame.f_code
            fn = co.co_filename
            if fn.startswith(prefix) and "/tests/" not in fn:
                names.add("%s:%s" % (fn[len(prefix):], co.co_qualname))

    for h in mod.HARNESSES:
        if not h.fidelity or not h.observe:
            continue
        vecs = h.fidelity(seed)[:40]
        import threading
        sys.setprofile(prof)
        threading.setprofile(prof)
        try:
            for v in vecs:
                try:
                    h.observe(*v)
                except BaseException:
                    pass
        finally:
            sys.setprofile(None)
            threading.setprofile(None)
    return sorted(names)


def check_property(pid, tier, seed):
    t_start = time.time()
    mod = load_module(pid)
    rng = random.Random(seed)
    out_lines = []
    violations = []      # (harness, args, info)
    known_printed = []
    harness_errors = []
    spurious = []
    e2 = None

    # 0. no PEP316 contracts inside /repo/testtools (a contracted callee would prune paths)
    # (cheap grep)
    for dirpath, _d, files in os.walk(os.path.join(REPO, "testtools")):
        for fn in files:
            if fn.endswith(".py"):
                with open(os.path.join(dirpath, fn), encoding="utf8", errors="replace") as f:
                    src = f.read()
                for line in src.splitlines():
                    s = line.strip()
                    if s.startswith("post:") or s.startswith("pre:"):
                        harness_errors.append("PEP316-like line in %s" % fn)

    # 1. known findings: replay witnesses natively; open + still violating => exclusion class
    excl = {}
    for e in load_known(pid):
        if e.get("status") != "open":
            continue
        viol, info = native_replay(pid, e["harness"], e["witness"], tries=5)
        if viol is None:
            harness_errors.append("witness of open finding %s (%s) cannot be replayed: %s" % (e["id"], e["harness"], info.get("error")))
        if viol:
            line = "KNOWN-FINDING: property=%s %s" % (pid, e["what"])
            print(line, flush=True)
            known_printed.append(e["id"])
            excl.setdefault(e["harness"], []).append((e["id"], e["class"]))
    # fixed entries: witness is a regression input, must hold now
    for e in load_known(pid):
        if e.get("status") == "fixed" and e.get("witness") is not None:
            viol, info = native_replay(pid, e["harness"], e["witness"], tries=3)
            if viol:
                violations.append((e["harness"], e["witness"], info))
            elif viol is None:
                # e.g. the harness signature changed and the recorded witness no longer fits: never a silent pass
                harness_errors.append("regression witness of %s (%s) cannot be replayed: %s" % (e["id"], e["harness"], info.get("error")))

    # 2. build task list: twins, fidelity, shards
    tasks = []
    for h in mod.HARNESSES:
        shard_list = h.shards(tier)
        tf = h.twin_fix if h.twin_fix is not None else (shard_list[0][0] if shard_list else {})
        tasks.append({"kind": "analyze", "pid": pid, "harness": h.name, "fix": tf, "twin": True,
                      "timeout": 120, "exclude": excl.get(h.name, [])})
        if h.fidelity and h.observe:
            from vf import fidelity
            vecs = fidelity.pick(h, seed, 24 if tier == "quick" else 64)
            table = fidelity.native_table(h, vecs)
            tasks.append({"kind": "fidelity", "pid": pid, "harness": h.name, "vectors": vecs,
                          "table": table, "timeout": 300})
        sl = list(shard_list)
        rng.shuffle(sl)
        for fix, timeout in sl:
            tasks.append({"kind": "analyze", "pid": pid, "harness": h.name, "fix": fix,
                          "timeout": timeout, "exclude": excl.get(h.name, [])})
    # longest first (after twins/fidelity) for packing
    head = [t for t in tasks if t.get("twin") or t["kind"] == "fidelity"]
    rest = sorted([t for t in tasks if t not in head], key=lambda t: -t["timeout"])
    tasks = head + rest

    verbose = os.environ.get("VERIF_VERBOSE")

    def progress(i, r):
        if verbose:
            t = r["task"]
            print("  [%s %s%s] %s %.1fs paths=%s %s" % (
                t["harness"], t.get("fix"), " TWIN" if t.get("twin") else "",
                r.get("verdict"), r.get("elapsed_s", 0), r.get("stats", {}).get("paths"),
                r.get("why", "")), flush=True)

    results = run_pool(tasks, progress=progress)

    # 2b. E2 lemmas (zproxy), if the module has any
    if hasattr(mod, "e2_lemmas"):
        try:
            e2 = mod.e2_lemmas(tier)
        except Exception as e:
            e2 = {"error": repr(e), "lemmas": []}
            harness_errors.append("E2 crashed: %r" % (e,))

    # 3. interpret
    shard_summ = {"confirmed": 0, "refuted": 0, "inconclusive": 0}
    total = {"paths": 0, "nontrivial": 0, "distinct": 0, "distinct_nontrivial": 0,
             "excluded_known": 0, "solver_queries": 0, "solver_time_s": 0.0}
    samples = []
    per_shard = []
    for t, r in zip(tasks, results):
        st = r.get("stats") or {}
        v = r.get("verdict")
        if t.get("twin"):
            if v != "REFUTED":
                harness_errors.append("reachability twin of %s not refuted (%s %s): harness vacuous"
                                      % (t["harness"], v, r.get("why") or r.get("cex_message", "")[:300]))
            continue
        if t["kind"] == "fidelity":
            if v != "CONFIRMED":
                harness_errors.append("engine fidelity check of %s failed: %s %s" % (
                    t["harness"], v, (r.get("cex_message") or r.get("why") or "")[:600]))
            total["solver_queries"] += r.get("solver_queries", 0)
            total["solver_time_s"] += r.get("solver_time_s", 0.0)
            continue
        for k in ("paths", "nontrivial", "distinct", "distinct_nontrivial", "excluded_known"):
            total[k] += st.get(k, 0)
        total["solver_queries"] += r.get("solver_queries", 0)
        total["solver_time_s"] += r.get("solver_time_s", 0.0)
        for s in st.get("samples", [])[:2]:
            if len(samples) < 12:
                samples.append({"harness": t["harness"], "vector": s})
        ps = {"harness": t["harness"], "fix": t["fix"], "verdict": v, "paths": st.get("paths", 0),
              "wall_s": round(r.get("elapsed_s", 0), 1)}
        if v == "CONFIRMED":
            shard_summ["confirmed"] += 1
        elif v == "REFUTED":
            args = r.get("cex_args")
            if args is None:
                shard_summ["inconclusive"] += 1
                ps["verdict"] = "INCONCLUSIVE"
                ps["why"] = "counterexample arguments unparsable: %s" % r.get("cex_message", "")[:200]
            else:
                viol, info = native_replay(pid, t["harness"], args, tries=5)
                if viol:
                    shard_summ["refuted"] += 1
                    violations.append((t["harness"], args, info))
                else:
                    spurious.append({"harness": t["harness"], "args": args, "native": info})
                    shard_summ["inconclusive"] += 1
                    ps["verdict"] = "INCONCLUSIVE"
                    ps["why"] = "counterexample did not reproduce natively (spurious)"
        elif v == "ERROR":
            args = r.get("cex_args")
            msg = (r.get("cex_message") or r.get("why") or "")[:500]
            harness_errors.append("harness %s %s raised under engine: %s\n%s" % (
                t["harness"], t["fix"], msg, r.get("cex_traceback", "")[-1500:]))
            shard_summ["inconclusive"] += 1
            ps["verdict"] = "INCONCLUSIVE"
        else:
            shard_summ["inconclusive"] += 1
            ps["why"] = r.get("why") or "; ".join(m["state"] for m in r.get("messages", []))
        per_shard.append(ps)

    if e2:
        for lem in e2.get("lemmas", []):
            if lem["verdict"] == "REFUTED":
                viol = lem.get("replay_violates")
                if viol:
                    violations.append(("E2:" + lem["name"], lem.get("model"), lem))
                else:
                    spurious.append({"harness": "E2:" + lem["name"], "args": lem.get("model")})

    # 4. report
    # de-duplicate violations against known finding classes is done by exclusion; what is left is new
    rc = 0
    os.makedirs(os.path.join(ROOT, "replays", pid), exist_ok=True)
    seen = set()
    for hname, args, info in violations:
        key = hashlib.sha1(json.dumps([hname, args], sort_keys=True, default=repr).encode()).hexdigest()[:12]
        if key in seen:
            continue
        seen.add(key)
        path = os.path.join(ROOT, "replays", pid, key + ".json")
        with open(path, "w") as f:
            json.dump({"property": pid, "harness": hname, "args": args, "native": info},
                      f, indent=1, default=repr)
        print("VIOLATION property=%s replay=%s" % (pid, path), flush=True)
        rc = 1

    n_shards = sum(shard_summ.values())
    obligations = n_shards + (len(e2["lemmas"]) if e2 else 0)
    discharged = shard_summ["confirmed"] + (sum(1 for l in e2["lemmas"] if l["verdict"] == "CONFIRMED") if e2 else 0)
    try:
        fenc = functions_encoded(pid, mod, seed)
    except Exception as e:
        fenc = ["<profiling failed: %r>" % (e,)]
    if hasattr(mod, "FUNCTIONS_EXTRA"):
        fenc = sorted(set(fenc) | set(mod.FUNCTIONS_EXTRA))
    assumptions = []
    for h in mod.HARNESSES:
        assumptions += h.assumptions
    assumptions += list(getattr(mod, "ASSUMPTIONS", []))
    evidence = {
        "property_id": pid, "tier": tier, "seed": seed, "level": "other",
        "coverage": {
            "explanation": EXPLANATION,
            "technique": "bounded symbolic execution (CrossHair/z3" + ("; zproxy E2 lemmas" if e2 else "") + ")",
            "evaluations": max(total["paths"], 0),
            "distinct_nontrivial": total["distinct_nontrivial"],
            "rule": " | ".join("%s: %s" % (h.name, h.rule) for h in mod.HARNESSES),
            "samples": samples or [{"note": "no path completed"}],
            "functions_encoded": fenc,
            "bounds": {h.name: h.bounds.get(tier, h.bounds.get("quick")) for h in mod.HARNESSES},
            "outside_claim": getattr(mod, "OUTSIDE", []),
            "shards": shard_summ, "per_shard": per_shard,
            "obligations": obligations, "discharged": discharged,
            "paths": total["paths"], "nontrivial_paths": total["nontrivial"],
            "paths_excluded_as_known_finding": total["excluded_known"],
            "solver_queries": total["solver_queries"],
            "solver_time_s": round(total["solver_time_s"], 2),
            "e2": e2,
            "spurious": spurious, "known_findings_printed": known_printed,
            "harness_errors": harness_errors,
            "exhaustive": (shard_summ["confirmed"] == n_shards and n_shards > 0 and not harness_errors
                           and (not e2 or all(l["verdict"] == "CONFIRMED" for l in e2["lemmas"]))),
        },
        "assumptions": assumptions,
        "wall_s": round(time.time() - t_start, 2),
        "violations": len(seen),
    }
    if evidence["coverage"]["distinct_nontrivial"] < 2:
        harness_errors.append("fewer than 2 distinct non-trivial cases explored")
    os.makedirs(os.path.join(ROOT, "evidence"), exist_ok=True)
    with open(os.path.join(ROOT, "evidence", pid + ".json"), "w") as f:
        json.dump(evidence, f, indent=1, default=repr)
    print("%s %s: shards %s; paths %d (non-trivial %d, distinct non-trivial %d); solver queries %d "
          "(%.1fs); %s%.1fs wall" % (
              pid, tier, shard_summ, total["paths"], total["nontrivial"],
              total["distinct_nontrivial"], total["solver_queries"], total["solver_time_s"],
              ("E2 %d/%d lemmas; " % (sum(1 for l in e2["lemmas"] if l["verdict"] == "CONFIRMED"),
                                      len(e2["lemmas"])) if e2 else ""),
              time.time() - t_start), flush=True)
    if rc == 0 and harness_errors:
        for e in harness_errors:
            print("HARNESS-ERROR: " + e, flush=True)
        rc = 2
    return rc


def replay_file(path):
    with open(path) as f:
        d = json.load(f)
    pid, hname, args = d["property"], d["harness"], d["args"]
    if hname.startswith("E2:"):
        mod = load_module(pid)
        ok, info = mod.e2_replay(hname[3:], args)
        print(json.dumps(info, indent=1, default=repr))
        return 0 if ok else 1
    viol, info = native_replay(pid, hname, args, tries=5)
    print(json.dumps(info, indent=1, default=repr))
    if viol:
        print("VIOLATION property=%s replay=%s" % (pid, path))
        return 1
    return 0


def main(argv=None):
    ap = argparse.ArgumentParser()
    ap.add_argument("property", nargs="?")
    ap.add_argument("--tier", default=os.environ.get("VERIF_TIER", "quick"))
    ap.add_argument("--replay")
    a = ap.parse_args(argv)
    seed = int(os.environ.get("VERIF_SEED", "0") or 0)
    if a.replay:
        return replay_file(a.replay)
    if a.tier not in ("quick", "thorough"):
        a.tier = "quick"
    return check_property(a.property.upper(), a.tier, seed)


if __name__ == "__main__":
    sys.exit(main())
