"""Shared by C01/C03 (and C02's repeat oracle): run one generated program against one result
flavour and observe it; reference semantics written from the property statements."""
from vf import ch
from vf import programs as P


def canonical(su, body, td, c1, c2, ncl, flag, max_faults):
    """Bounds / canonical form. Returns None when the vector is outside the bound."""
    cl = [c1, c2][:ncl]
    if ncl < 2 and c2 != P.RET:
        return None
    if ncl < 1 and c1 != P.RET:
        return None
    if su != P.RET and (body != P.RET or td != P.RET or flag != 0):
        return None          # body/tearDown do not run: their kinds are irrelevant
    faults = sum(1 for k in [su, body, td] + cl if k != P.RET) + (1 if flag else 0)
    if faults > max_faults:
        return None
    return cl


def reference(su, body, td, cl, flag):
    """Expected execution log and the flat list of raised exception classes, from the statement:
    setUp; body and tearDown iff setUp returned; then cleanups LIFO; forced failure last."""
    log = ["setUp"]
    raised = list(P.FLATTEN[su])
    ran_body = su == P.RET
    if ran_body:
        log.append("body")
        raised += P.FLATTEN[body]
        log.append("tearDown")
        raised += P.FLATTEN[td]
    for i in reversed(range(len(cl))):
        log.append("cleanup%d" % i)
        raised += P.FLATTEN[cl[i]]
    if ran_body and flag:
        raised.append("failure")      # expectThat mismatch / force_failure
    return log, raised


def run_once(case, flav):
    result, events = P.make_result(flav)
    exc = None
    ret = None
    try:
        ret = case.run(result)
    except BaseException as e:  # noqa
        if isinstance(e, ch.Prune) or type(e).__module__.startswith("crosshair"):
            raise
        exc = e
    if flav == P.FNONE:
        events = case._default_log
        result = ret
    return P.normalise_log(events, flav), exc, result


def outcome_of(names, flav):
    """Check bracketing; return (well_bracketed, abstract-outcome-event-name or None)."""
    if flav == P.FSTREAM:
        core = [n for n in names if n != "file"]
        if len(core) != 3 or core[0] != "startTestRun" or core[1] != "status:inprogress":
            return False, None
        if not core[2].startswith("status:") or names[-1] != core[2]:
            return False, None
        st = core[2][7:]
        if st not in ("success", "fail", "skip", "xfail", "uxsuccess"):
            return False, None
        return True, st
    if flav == P.FNONE:
        if len(names) != 5 or names[0] != "startTestRun" or names[4] != "stopTestRun":
            return False, None
        names = names[1:4]
    if len(names) != 3 or names[0] != "startTest" or names[2] != "stopTest":
        return False, None
    if names[1] not in P.EVENT.values():
        return False, None
    return True, names[1]


def seen_as(outcome, flav):
    if flav == P.FSTREAM:
        return P.STREAM_STATUS[outcome]
    if flav == P.FNONE:
        return P.EVENT[outcome]
    return P.degrade(outcome, flav)


def allowed_outcomes(raised):
    """C03: the set of abstract outcomes the statement allows for this list of raised classes."""
    if not raised:
        return {"success"}
    if "base" in raised:
        return {"error"}
    if len(raised) == 1:
        return {raised[0]}
    if "failure" in raised or "error" in raised:
        return {r for r in raised if r in P.UNSUCCESSFUL}
    return set(raised)
