"""E1: CrossHair (crosshair-tool 0.0.110 / z3) driven in-process, with the engine configuration
of DESIGN 1.1 applied. Runs inside a worker process (one shard per process)."""
import ast
import codecs
import contextlib
import re
import sys
import time

_CONFIGURED = False
SOLVER = {"queries": 0, "time_s": 0.0}


def configure():
    global _CONFIGURED
    if _CONFIGURED:
        return
    import time as _t
    import crosshair.core as cc
    import crosshair.enforce as ce
    import crosshair.register_contract as rc
    from crosshair import core_and_libs  # noqa: F401  (registers libimpl patches)
    import z3

    # (ii) CPython's codecs, not CrossHair's model of them
    for f in (codecs.decode, codecs.encode, codecs.lookup, codecs.getencoder, codecs.getdecoder,
              codecs.getincrementalencoder, codecs.getincrementaldecoder, codecs.getreader,
              codecs.getwriter):
        cc._PATCH_REGISTRATIONS.pop(f, None)
    # (iv) builtin format(): CrossHair's patch deep-realises its argument, i.e. enumerates the values
    # of every symbolic int reachable from an object that is merely interpolated into an f-string
    # (e.g. str(Not(Equals(x)))). Our harnesses never format symbolic str, so CPython's format runs.
    cc._PATCH_REGISTRATIONS.pop(format, None)
    # (v) builtin repr(): CrossHair's model renders a 1-tuple as "('x')" (no trailing comma) - found by
    # the fidelity self-check of C15. CPython's repr runs; symbolic objects still provide __repr__.
    cc._PATCH_REGISTRATIONS.pop(repr, None)
    # (vi) "fmt" % args: CrossHair's patch deep-COPIES and deep-realises the right operand (copyext REALIZE mode), i.e. it
    # enumerates every symbolic int reachable from any object that is merely interpolated (found with seed C20-m5, where
    # '"... %r" % failure' made the path tree infinite) and hands copies, not the objects, to __repr__/__str__.
    # CPython's str.__mod__ runs instead; symbolic operands still realise themselves through __repr__/__str__/__index__.
    cc._PATCH_REGISTRATIONS.pop(str.__mod__, None)
    # (iii) no symbolic clock
    for f in (_t.time, _t.time_ns, _t.monotonic, _t.monotonic_ns, _t.process_time,
              _t.process_time_ns):
        rc.REGISTERED_CONTRACTS.pop(f, None)
    # (i) no callee-contract enforcement
    ce.EnforcedConditions.enabled_enforcement = lambda self: contextlib.nullcontext()

    # count solver queries / time
    orig_check = z3.Solver.check

    def counting_check(self, *a, **kw):
        t0 = time.perf_counter()
        try:
            return orig_check(self, *a, **kw)
        finally:
            SOLVER["queries"] += 1
            SOLVER["time_s"] += time.perf_counter() - t0

    z3.Solver.check = counting_check
    _CONFIGURED = True


_CALL_RE = re.compile(r"when calling (\w+)\((.*)\)(?: \(which |$)", re.S)


def parse_args(message, fn):
    """Extract the concrete argument tuple from a CrossHair counterexample message."""
    import inspect
    m = re.search(r"when calling (\w+)\(", message)
    if not m:
        return None
    rest = message[m.end():]
    end = rest.rfind(") (which ")
    if end < 0:
        end = rest.rfind(")")
    if end < 0:
        return None
    src = "f(%s)" % rest[:end]
    try:
        # CrossHair prints aliased values with walrus bindings (v1:=b'', v1, ...): evaluate the call
        # expression with a collecting function in an empty namespace.
        pos, kw = eval(src, {"__builtins__": {}, "f": lambda *a, **k: (list(a), k),
                             "float": float, "set": set, "frozenset": frozenset, "bytearray": bytearray})
        sig = inspect.signature(fn)
        ba = sig.bind(*pos, **kw)
        ba.apply_defaults()
        return list(ba.args)
    except Exception:
        return None


def analyze(fn, timeout, per_path_timeout=120.0):
    """Run CrossHair on one harness function. Returns a dict verdict."""
    configure()
    from crosshair.core import run_checkables
    from crosshair.core_and_libs import analyze_function, AnalysisKind
    from crosshair.options import AnalysisOptionSet

    opts = AnalysisOptionSet(
        per_condition_timeout=float(timeout), per_path_timeout=float(per_path_timeout),
        report_all=True, analysis_kind=(AnalysisKind.PEP316,),
        max_uninteresting_iterations=sys.maxsize, max_iterations=sys.maxsize,
    )
    q0, t0s = SOLVER["queries"], SOLVER["time_s"]
    t0 = time.perf_counter()
    msgs = list(run_checkables(analyze_function(fn, opts)))
    wall = time.perf_counter() - t0
    out = {"wall_s": wall, "solver_queries": SOLVER["queries"] - q0,
           "solver_time_s": SOLVER["time_s"] - t0s, "messages": []}
    verdict = "INCONCLUSIVE"
    cex = None
    for m in msgs:
        st = m.state.name
        out["messages"].append({"state": st, "message": m.message[:2000]})
        if st == "CONFIRMED":
            verdict = "CONFIRMED"
        elif st in ("POST_FAIL", "EXEC_ERR", "POST_ERR", "PRE_INVALID"):
            verdict = "REFUTED" if st == "POST_FAIL" else "ERROR"
            cex = parse_args(m.message, fn)
            out["cex_message"] = m.message[:4000]
            out["cex_traceback"] = (m.traceback or "")[-3000:]
            break
        elif st in ("CANNOT_CONFIRM", "PRE_UNSAT", "SYNTAX_ERR", "IMPORT_ERR"):
            verdict = "INCONCLUSIVE"
            out["why"] = st
    if not msgs:
        out["why"] = "no messages"
    out["verdict"] = verdict
    from vf import ch as _ch
    out["cex_args"] = _ch.enc(cex) if cex is not None else None
    return out
