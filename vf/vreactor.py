"""Deterministic virtual-time reactor (DESIGN 1.2): twisted.internet.task.Clock (real DelayedCall
objects) extended with the IReactorCore bits Spinner uses. run() advances to the next delayed call;
'nothing scheduled and still running' is reported as WouldBlockForever instead of hanging."""
from twisted.internet.task import Clock


class WouldBlockForever(Exception):
    pass


class VReactor(Clock):
    def __init__(self):
        super().__init__()
        self.running = False
        self._when_running = []
        self.selectables = []
        self.max_steps = 200
        self.interrupts = []      # virtual instants at which "a signal arrives" and reactor.stop() is called

    # IReactorCore ---------------------------------------------------------------------------
    def callWhenRunning(self, f, *a, **kw):
        if self.running:
            f(*a, **kw)
        else:
            self._when_running.append((f, a, kw))

    def _on_signal(self, signum, frame):
        self.stop()

    def _install_signal_handlers(self):
        """What the real reactor does in startRunning(): SIGINT only when Python's default handler is in place,
        SIGTERM always, and a SIGCHLD handler for process reaping (posix)."""
        import signal
        import threading
        if threading.current_thread() is not threading.main_thread():
            return
        if signal.getsignal(signal.SIGINT) == signal.default_int_handler:
            signal.signal(signal.SIGINT, self._on_signal)
        signal.signal(signal.SIGTERM, self._on_signal)
        if hasattr(signal, "SIGCHLD"):
            signal.signal(signal.SIGCHLD, self._on_signal)

    def run(self, installSignalHandlers=True):
        if installSignalHandlers:
            self._install_signal_handlers()
        self.running = True
        hooks, self._when_running = self._when_running, []
        for f, a, kw in hooks:
            f(*a, **kw)
        steps = 0
        while self.running:
            calls = [c for c in self.calls if c.active()]
            times = [c.getTime() for c in calls] + list(self.interrupts)
            if not times:
                self.running = False
                raise WouldBlockForever("reactor running with nothing scheduled")
            nxt = min(times)
            self.advance(max(0, nxt - self.seconds()))
            due = [t for t in self.interrupts if t <= self.seconds()]
            if due:
                self.interrupts = [t for t in self.interrupts if t > self.seconds()]
                self.stop()      # looked up on the instance: Spinner substitutes crash() while it runs
            steps += 1
            if steps > self.max_steps:
                self.running = False
                raise WouldBlockForever("more than %d reactor steps" % self.max_steps)

    def interrupt_at(self, t):
        self.interrupts.append(t)

    def crash(self):
        self.running = False

    def stop(self):
        self.running = False

    def iterate(self, delay=0):
        self.advance(delay)

    # as ReactorBase does: a copy, not the live list
    def getDelayedCalls(self):
        return [c for c in self.calls if c.active()]

    def removeAll(self):
        s, self.selectables = self.selectables, []
        return s

    def addReader(self, s):
        self.selectables.append(s)
