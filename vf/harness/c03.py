"""C03 - reported outcome is sound: success means nothing raised; failures never masked."""
from vf import ch, lifecycle as L, programs as P
from vf.driver import Harness
from vf.harness.c01 import pick_program

PROPERTY = "C03"
MAXF = {"quick": 2, "thorough": 3}


def run_c03(su, body, td, c1, c2, ncl, flag, flav, mf):
    cl = L.canonical(su, body, td, c1, c2, ncl, flag, mf)
    if cl is None:
        return None
    log = []
    case = P.make_case(su, body, td, cl, log, expect_mismatch=(flag == 1), force_failure=(flag == 2))
    names, exc, res = L.run_once(case, flav)
    _exp_log, raised = L.reference(su, body, td, cl, flag)
    ok_br, seen = L.outcome_of(names, flav)
    allowed = sorted(L.allowed_outcomes(raised))
    allowed_seen = sorted({L.seen_as(o, flav) for o in allowed})
    problems = []
    if not ok_br:
        problems.append("no single outcome: %r" % (names,))
    elif seen not in allowed_seen:
        problems.append("outcome %s not among %r allowed for raised=%r" % (seen, allowed_seen, raised))
    # verdict of a testtools.TestResult fed by the run
    if flav in (P.FTT, P.FNONE) and res is not None:
        r = res
        must_fail = any(x in ("failure", "error", "base") for x in raised)
        if must_fail and r.wasSuccessful():
            problems.append("a failure/error was raised but wasSuccessful() is True")
        if not raised and not r.wasSuccessful():
            problems.append("nothing raised but wasSuccessful() is False")
    return {"names": names, "exc": type(exc).__name__ if exc else None, "raised": raised,
            "allowed": allowed_seen, "seen": seen, "problems": problems}


def h_sound(su: int, body: int, td: int, c1: int, c2: int, ncl: int, flag: int, flav: int,
            mf: int) -> bool:
    """
    pre: 0 <= su < 10 and 0 <= body < 10 and 0 <= td < 10 and 0 <= c1 < 10 and 0 <= c2 < 10
    pre: 0 <= ncl < 3 and 0 <= flag < 3 and 0 <= flav < 7 and 0 <= mf < 6
    post: _
    """
    try:
        fl = ch.sel("flav", flav, 7)
        v = pick_program(su, body, td, c1, c2, ncl, flag, mf)
        v["flav"] = fl
    except ch.Prune:
        return True
    o = run_c03(v["su"], v["body"], v["td"], v["c1"], v["c2"], v["ncl"], v["flag"], v["flav"], v["mf"])
    if o is None:
        ch.STATS["pruned"] += 1
        return True
    v["raised"] = o["raised"]
    if ch.excluded(v):
        return True
    return ch.finish(not o["problems"], v, nontrivial=len(o["raised"]) >= 1)


# --- user-inserted handlers and subclasses of the signal exceptions -------------------------
# kinds: which exception the body raises; pos: where the user handler for CustomError is inserted
HK = ["custom", "subskip", "subfail(custom unclaimed)", "sub_xfail", "sub_uxs"]


def run_handler(kind, pos, claim, flav, when=0):
    """kind 0: raise CustomError(AssertionError); a user handler (CustomError -> addSkip-like
    'claimed') is inserted at index `pos` (0 = before every stock handler, 1 = after skip, 2 = after
    the failureException handler, 5 = append after Exception) when claim is set.
    kind 1..: subclasses of the stock signal exceptions with no user handler."""
    import unittest.case as uc
    from testtools.testcase import _ExpectedFailure, _UnexpectedSuccess
    log = []
    calls = []

    def user_handler(case, result, e):
        calls.append(type(e).__name__)
        result.addExpectedFailure(case, details=case.getDetails())

    class SubXF(_ExpectedFailure):
        pass

    class SubUX(_UnexpectedSuccess):
        pass

    def body(case):
        if kind == 0:
            raise P.CustomError("c")
        if kind == 1:
            raise P.SubSkip("s")
        if kind == 2:
            class SubFail(case.failureException):
                pass
            raise SubFail("f")
        if kind == 3:
            try:
                raise AssertionError("inner")
            except AssertionError:
                import sys
                raise SubXF(sys.exc_info())
        if kind == 4:
            raise SubUX("u")

    def install(case):
        n = len(case.exception_handlers)
        case.exception_handlers.insert(min(pos, n), (P.CustomError, user_handler))

    # `when`: the user inserts the handler before run() (0), from setUp (1) or from the test body itself (2):
    # exception_handlers "is able to be modified at any time"
    hooks = {"body": (lambda c: (install(c) if (claim and when == 2) else None, body(c)))}
    if claim and when == 1:
        hooks["setUp"] = install
    case = P.make_case(P.RET, P.RET, P.RET, [], log, hooks=hooks)
    if claim and when == 0:
        install(case)
    names, exc, _ = L.run_once(case, flav)
    ok_br, seen = L.outcome_of(names, flav)
    # reference: first handler in list order whose class matches
    if kind == 0:
        if claim and pos <= 1:
            exp = "xfail"        # user handler precedes the failureException handler
        else:
            exp = "failure"      # CustomError is-a AssertionError: stock failure handler first
    else:
        exp = {1: "skip", 2: "failure", 3: "xfail", 4: "uxsuccess"}[kind]
    problems = []
    if not ok_br or seen != L.seen_as(exp, flav):
        problems.append("expected %s, got %r" % (L.seen_as(exp, flav), names))
    if exc is not None:
        problems.append("run() raised %r" % (exc,))
    if kind == 0 and claim and pos <= 1 and calls != ["CustomError"]:
        problems.append("user handler calls: %r" % (calls,))
    if (kind != 0 or not claim or pos > 1) and calls:
        problems.append("user handler called although an earlier handler matches")
    return {"names": names, "seen": seen, "expected": exp, "calls": calls, "problems": problems}


def h_handler(kind: int, pos: int, claim: bool, flav: int, when: int) -> bool:
    """
    pre: 0 <= kind < 5 and 0 <= pos < 6 and 0 <= flav < 7 and 0 <= when < 3
    post: _
    """
    try:
        v = dict(kind=ch.sel("kind", kind, 5), pos=ch.sel("pos", pos, 6), claim=ch.cbool(claim),
                 flav=ch.sel("flav", flav, 7))
        v["when"] = ch.sel("when", when, 3) if v["claim"] else 0
    except ch.Prune:
        return True
    o = run_handler(v["kind"], v["pos"], v["claim"], v["flav"], v["when"])
    return ch.finish(not o["problems"], v, nontrivial=True)


def _shards(tier):
    mf = MAXF[tier]
    return [({"flav": f, "su": s, "mf": mf}, 240 if tier == "quick" else 900)
            for f in range(7) for s in range(P.N_KINDS)]


def _fid(seed):
    from vf.harness.c01 import _fid as f
    return f(seed)


HARNESSES = [
    Harness(
        "sound", h_sound, _shards,
        bounds={"quick": "programs as C01 (5 stage slots x 10 behaviours + flag), at most 2 faults "
                         "(i.e. all ordered pairs of (kind, stage)), x 7 result flavours",
                "thorough": "at most 3 faults (all ordered triples)"},
        rule="one program x flavour per path; non-trivial = something raised or forced failure",
        fidelity=_fid,
        observe=lambda *a: (lambda o: None if o is None else (o["names"], o["exc"]))(run_c03(*a)),
        describe=lambda *a: run_c03(*a),
        assumptions=["'a failure or an error' = AssertionError/failureException, any other Exception, "
                     "and the constituents of MultipleExceptions; an unexpected success also counts as unsuccessful"]),
    Harness(
        "handler", h_handler, lambda tier: [({}, 240)],
        bounds={"quick": "single exception: CustomError(AssertionError) with a user handler inserted at "
                         "index 0,1,2,3,4,5 or absent, inserted before run(), from setUp or from the test body; subclasses of SkipTest / failureException / "
                         "_ExpectedFailure / _UnexpectedSuccess; x 7 flavours"},
        rule="every path non-trivial (one exception raised)",
        fidelity=lambda seed: [(k, p, c, f, w) for k in range(5) for p in (0, 2) for c in (True, False) for f in (2, 4) for w in (0, 2)],
        observe=lambda *a: (lambda o: (o["names"], o["calls"]))(run_handler(*a)),
        describe=lambda *a: run_handler(*a)),
]
OUTSIDE = ["more than 3 raised exceptions per program",
           "user handlers that themselves raise"]
