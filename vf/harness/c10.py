"""C10 - stream consumers account for every test exactly once."""
from testtools.testresult import doubles
from testtools.testresult.real import StreamSummary, StreamToDict, StreamToExtendedDecorator

from vf import ch
from vf.driver import Harness

PROPERTY = "C10"
FINAL = ("exists", "xfail", "uxsuccess", "success", "fail", "skip", "unknown")
OUTCOME = {"success": "addSuccess", "skip": "addSkip", "fail": "addFailure", "xfail": "addExpectedFailure",
           "uxsuccess": "addUnexpectedSuccess", "inprogress": "addFailure", "unknown": "addFailure"}


class Ref:
    """Reference accounting written from the statement."""

    def __init__(self, ignore_exists_events=False):
        self.open = {}          # (id, route) -> record, insertion ordered
        self.reported = []
        self.ignore_exists = ignore_exists_events

    def status(self, ev):
        if self.ignore_exists and ev.get("test_status") == "exists":
            return
        tid = ev.get("test_id")
        if tid is None:
            return
        key = (tid, ev.get("route_code"))
        ts = ev.get("timestamp")
        rec = self.open.get(key)
        if rec is None:
            rec = {"id": tid, "status": "unknown", "tags": set(), "first": ts, "last": None, "files": {},
                   "mimes": {}}
            self.open[key] = rec
        st = ev.get("test_status")
        if st is not None:
            rec["status"] = st
        rec["last"] = ts
        fn, fb = ev.get("file_name"), ev.get("file_bytes")
        if fn is not None and fb is not None:
            if fn not in rec["files"]:
                rec["files"][fn] = []
                rec["mimes"][fn] = set()
            rec["files"][fn].append(fb)
            rec["mimes"][fn].add(ev.get("mime_type"))
        if ev.get("test_tags") is not None:
            rec["tags"] = ev["test_tags"]
        if st is not None and st != "inprogress":
            self.reported.append(self.open.pop(key))

    def stop(self):
        # order of flushing incomplete tests is unspecified
        rest = list(self.open.values())
        self.open = {}
        for r in rest:
            r["last"] = None
            r["incomplete"] = True
        return rest


def joined(chunks):
    out = b""
    for c in chunks:
        out = out + c
    return out


def cmp_record(d, r, problems, who):
    if d["id"] != r["id"] or d["status"] != r["status"]:
        problems.append("%s reported %s/%s, expected %s/%s" % (who, d["id"], d["status"], r["id"], r["status"]))
    if d["timestamps"][0] is not r["first"] and d["timestamps"][0] != r["first"]:
        problems.append("%s first timestamp of %s" % (who, r["id"]))
    if d["timestamps"][1] is not r["last"] and d["timestamps"][1] != r["last"]:
        problems.append("%s last timestamp of %s" % (who, r["id"]))
    if d["tags"] != r["tags"]:
        problems.append("%s tags of %s: %r, expected %r" % (who, r["id"], d["tags"], r["tags"]))
    for fn, chunks in r["files"].items():
        want = joined(chunks)
        if fn in d["details"]:
            got = joined(list(d["details"][fn].iter_bytes()))
            if got != want:
                problems.append("%s attachment %s of %s: bytes differ" % (who, fn, r["id"]))
            ms = r["mimes"][fn]
            if len(ms) == 1 and None not in ms and repr(d["details"][fn].content_type) != list(ms)[0]:
                problems.append("%s attachment %s mime %r, expected %r" % (who, fn, d["details"][fn].content_type, ms))
        elif len(want) != 0:
            problems.append("%s attachment %s of %s missing" % (who, fn, r["id"]))
    for fn in d["details"]:
        if fn not in r["files"]:
            problems.append("%s unexpected attachment %s" % (who, fn))


def run_events(events, check_extended=True):
    got_dicts = []
    s2d = StreamToDict(got_dicts.append)
    summ = StreamSummary()
    ext = doubles.ExtendedTestResult()
    sted = StreamToExtendedDecorator(ext)
    ref, ref_e = Ref(), Ref(ignore_exists_events=True)
    consumers = [s2d, summ] + ([sted] if check_extended else [])
    problems = []
    for c in consumers:
        c.startTestRun()
    for ev in events:
        for c in consumers:
            try:
                c.status(**ev)
            except Exception as e:
                problems.append("%s.status raised %r" % (type(c).__name__, e))
        ref.status(ev)
        ref_e.status(ev)
    n_before_stop = len(got_dicts)
    for c in consumers:
        try:
            c.stopTestRun()
        except Exception as e:
            problems.append("%s.stopTestRun raised %r" % (type(c).__name__, e))
    rest = ref.stop()
    rest_e = ref_e.stop()
    # StreamToDict
    if n_before_stop != len(ref.reported):
        problems.append("StreamToDict reported %d tests before stopTestRun, expected %d" % (n_before_stop, len(ref.reported)))
    if len(got_dicts) != len(ref.reported) + len(rest):
        problems.append("StreamToDict reported %d tests in total, expected %d" % (len(got_dicts), len(ref.reported) + len(rest)))
    else:
        for d, r in zip(got_dicts, ref.reported):
            cmp_record(d, r, problems, "StreamToDict")
        tail = got_dicts[len(ref.reported):]
        for r in rest:
            match = [d for d in tail if d["id"] == r["id"] and d["status"] == r["status"]]
            if not match:
                problems.append("StreamToDict: incomplete test %s/%s not flushed at stopTestRun" % (r["id"], r["status"]))
            elif len(rest) == len({x["id"] for x in rest}):
                cmp_record(match[0], r, problems, "StreamToDict(incomplete)")
    # StreamSummary
    all_recs = ref.reported + rest
    counted = [r for r in all_recs if r["status"] != "exists"]
    if summ.testsRun != len(counted):
        problems.append("StreamSummary.testsRun %d, expected %d" % (summ.testsRun, len(counted)))
    want_lists = {"skipped": [], "expectedFailures": [], "unexpectedSuccesses": [], "bad": []}
    for r in counted:
        st = r["status"]
        if st == "skip":
            want_lists["skipped"].append(r["id"])
        elif st == "xfail":
            want_lists["expectedFailures"].append(r["id"])
        elif st == "uxsuccess":
            want_lists["unexpectedSuccesses"].append(r["id"])
        elif st in ("fail", "inprogress", "unknown"):
            want_lists["bad"].append(r["id"])
    got_lists = {
        "skipped": [c.id() for c, _ in summ.skipped],
        "expectedFailures": [c.id() for c, _ in summ.expectedFailures],
        "unexpectedSuccesses": [c.id() for c in summ.unexpectedSuccesses],
        "bad": [c.id() for c, _ in summ.errors] + [c.id() for c, _ in summ.failures],
    }
    for k in want_lists:
        if sorted(got_lists[k]) != sorted(want_lists[k]):
            problems.append("StreamSummary %s: %r, expected %r" % (k, got_lists[k], want_lists[k]))
    if want_lists["bad"] and summ.wasSuccessful():
        problems.append("StreamSummary.wasSuccessful() is True with failed/incomplete tests %r" % (want_lists["bad"],))
    if not want_lists["bad"] and not summ.wasSuccessful():
        problems.append("StreamSummary.wasSuccessful() is False without a failed or incomplete test")
    # StreamToExtendedDecorator
    if check_extended:
        brackets = []
        cur = None
        for e in ext._events:
            if e[0] == "startTest":
                cur = [e[1].id(), None]
            elif e[0].startswith("add") and cur is not None:
                cur[1] = e[0] if cur[1] is None else "TWO-OUTCOMES"
            elif e[0] == "stopTest" and cur is not None:
                brackets.append(tuple(cur))
                cur = None
        want = [(r["id"], OUTCOME[r["status"]]) for r in ref_e.reported]
        want_rest = sorted((r["id"], OUTCOME[r["status"]]) for r in rest_e)
        if brackets[:len(want)] != want or sorted(brackets[len(want):]) != want_rest:
            problems.append("StreamToExtendedDecorator replayed %r, expected %r then %r" % (brackets, want, want_rest))
        names = [e[0] for e in ext._events]
        if names[:1] != ["startTestRun"] or names[-1:] != ["stopTestRun"]:
            problems.append("StreamToExtendedDecorator run boundaries: %r" % (names,))
    return {"reported": [(r["id"], r["status"]) for r in all_recs], "problems": problems}


# --- H1 accounting ---------------------------------------------------------------------------
H1_EV = [dict(test_id=i, test_status=s) for i in ("a", "b") for s in (None, "inprogress", "success", "fail")] + \
        [dict(test_id=None, test_status="success")]
H1B_STATUS = ["skip", "xfail", "uxsuccess", "exists", "unknown"]


def h_acct(n: int, e0: int, e1: int, e2: int, e3: int, e4: int, e5: int) -> bool:
    """
    pre: 0 <= n <= 6
    pre: 0 <= e0 < 9 and 0 <= e1 < 9 and 0 <= e2 < 9 and 0 <= e3 < 9 and 0 <= e4 < 9 and 0 <= e5 < 9
    post: _
    """
    try:
        nn = ch.sel("n", n, 7)
        raw = [e0, e1, e2, e3, e4, e5]
        idx = [ch.sel("e%d" % k, raw[k], len(H1_EV)) for k in range(nn)]
    except ch.Prune:
        return True
    o = run_events([dict(H1_EV[i]) for i in idx])
    ch.LAST.update(o)
    return ch.finish(not o["problems"], dict(ev=tuple(idx)), nontrivial=nn >= 2)


def run_acct2(s0, s1, s2, route1):
    """other final statuses, the same id on two routes, id re-use after a final status."""
    evs = [dict(test_id="a", test_status=H1B_STATUS[s0]),
           dict(test_id="a", test_status=([None, "inprogress"] + H1B_STATUS)[s1], route_code="0" if route1 else None),
           dict(test_id="a", test_status=([None, "inprogress"] + H1B_STATUS)[s2])]
    return run_events(evs)


def h_acct2(s0: int, s1: int, s2: int, route1: bool) -> bool:
    """
    pre: 0 <= s0 < 5 and 0 <= s1 < 7 and 0 <= s2 < 7
    post: _
    """
    v = dict(s0=ch.sel("s0", s0, 5), s1=ch.sel("s1", s1, 7), s2=ch.sel("s2", s2, 7), route1=ch.cbool(route1))
    o = run_acct2(v["s0"], v["s1"], v["s2"], v["route1"])
    ch.LAST.update(o)
    return ch.finish(not o["problems"], v, nontrivial=True)


# --- H2 attachments (symbolic chunk bytes) ------------------------------------------------------
H2_EV = [("a", "f", 0), ("a", "g", 1), ("b", "f", 1), ("a", "f", 1), ("FINAL", "a", 0), ("FINAL", "b", 0)]
MIMES = ["application/octet-stream", "application/x-other"]


def h_files(n: int, e0: int, e1: int, e2: int, e3: int, b0: bytes, b1: bytes, b2: bytes, b3: bytes) -> bool:
    """
    pre: 0 <= n <= 4 and len(b0) <= 1 and len(b1) <= 1 and len(b2) <= 1 and len(b3) <= 1
    pre: 0 <= e0 < 6 and 0 <= e1 < 6 and 0 <= e2 < 6 and 0 <= e3 < 6
    post: _
    """
    try:
        nn = ch.sel("n", n, 5)
        raw = [e0, e1, e2, e3]
        idx = [ch.sel("e%d" % k, raw[k], len(H2_EV)) for k in range(nn)]
    except ch.Prune:
        return True
    chunks = [b0, b1, b2, b3]
    evs = []
    for k, i in enumerate(idx):
        a, b, m = H2_EV[i]
        if a == "FINAL":
            evs.append(dict(test_id=b, test_status="success"))
        else:
            evs.append(dict(test_id=a, file_name=b, file_bytes=chunks[k], mime_type=MIMES[m]))
    o = run_events(evs, check_extended=False)
    ch.LAST.update(o)
    return ch.finish(not o["problems"], dict(ev=tuple(idx)), nontrivial=nn >= 2, sym=("chunks",))


# --- H3 tags / timestamps ---------------------------------------------------------------------
TAGS = [None, set(), {"t"}, {"u"}]


def h_tags(n: int, g0: int, g1: int, g2: int, g3: int, f0: bool, f1: bool, f2: bool, f3: bool,
           t0: int, t1: int, t2: int, t3: int, nots: int) -> bool:
    """
    pre: 0 <= n <= 4 and 0 <= g0 < 4 and 0 <= g1 < 4 and 0 <= g2 < 4 and 0 <= g3 < 4 and 0 <= nots < 16
    post: _
    """
    try:
        nn = ch.sel("n", n, 5)
        raw = [g0, g1, g2, g3]
        gi = [ch.sel("g%d" % k, raw[k], 4) for k in range(nn)]
        nt = ch.sel("nots", nots, 1 << nn)       # bit k set: event k carries no timestamp
    except ch.Prune:
        return True
    fin = [ch.cbool(x) for x in [f0, f1, f2, f3][:nn]]
    ts = [None if (nt >> k) & 1 else ch.V(t) for k, t in enumerate([t0, t1, t2, t3])]
    evs = []
    for k in range(nn):
        tg = TAGS[gi[k]]
        evs.append(dict(test_id="a", test_status="success" if fin[k] else "inprogress",
                        test_tags=None if tg is None else set(tg), timestamp=ts[k]))
    o = run_events(evs, check_extended=False)
    ch.LAST.update(o)
    return ch.finish(not o["problems"], dict(tags=tuple(gi), final=tuple(fin), nots=nt), nontrivial=nn >= 2, sym=("timestamps",))


# --- H4 joint ---------------------------------------------------------------------------------
def h_joint(n: int, i0: int, i1: int, i2: int, b0: bytes, b1: bytes, b2: bytes, t0: int, t1: int, t2: int,
            red: int) -> bool:
    """
    pre: 0 <= n <= 3 and len(b0) <= 1 and len(b1) <= 1 and len(b2) <= 1 and 0 <= red < 2
    pre: 0 <= i0 < 64 and 0 <= i1 < 64 and 0 <= i2 < 64
    post: _
    """
    try:
        nn = ch.sel("n", n, 4)
        rd = ch.sel("red", red, 2)
        raw = [i0, i1, i2]
        if rd:      # reduced alphabet: route None, no tags -> bits (id, status, file)
            idx = []
            for k in range(nn):
                j = ch.sel("i%d" % k, raw[k], 16)
                idx.append((j & 1) | (((j >> 1) & 3) << 2) | (((j >> 3) & 1) << 4))
        else:
            idx = [ch.sel("i%d" % k, raw[k], 64) for k in range(nn)]
    except ch.Prune:
        return True
    chunks, ts = [b0, b1, b2], [ch.V(t0), ch.V(t1), ch.V(t2)]
    evs = []
    for k, i in enumerate(idx):
        tid = [None, "a"][i & 1]
        route = [None, "0"][(i >> 1) & 1]
        st = [None, "inprogress", "success", "fail"][(i >> 2) & 3]
        has_file = (i >> 4) & 1
        tagged = (i >> 5) & 1
        ev = dict(test_id=tid, route_code=route, test_status=st, timestamp=ts[k],
                  test_tags={"t"} if tagged else None)
        if has_file:
            ev.update(file_name="f", file_bytes=chunks[k], mime_type=MIMES[0])
        evs.append(ev)
    o = run_events(evs, check_extended=False)
    ch.LAST.update(o)
    return ch.finish(not o["problems"], dict(ev=tuple(idx)), nontrivial=nn >= 2, sym=("chunks", "timestamps"))


def _acct_shards(tier):
    if tier == "quick":
        return [({"n": n}, 600) for n in range(4)] + [({"n": 4, "e0": e}, 900) for e in range(9)]
    return ([({"n": n}, 600) for n in range(4)] + [({"n": 4, "e0": e}, 900) for e in range(9)]
            + [({"n": 5, "e0": e, "e1": f}, 1800) for e in range(9) for f in range(9)])


def _joint_shards(tier):
    out = [({"n": n, "red": 0}, 600) for n in range(2)] + [({"n": 2, "red": 0, "i0": i}, 600) for i in range(0, 64, 1)]
    out += [({"n": 3, "red": 1, "i0": i}, 900) for i in range(16)]
    if tier == "thorough":
        out += [({"n": 3, "red": 0, "i0": i}, 3600) for i in range(0, 64, 4)]
    return out


HARNESSES = [
    Harness("acct", h_acct, _acct_shards,
            bounds={"quick": "every sequence of <= 4 status events over ids {a, b} x status {None, inprogress, success, fail} plus an "
                             "id-less event, bracketed by startTestRun/stopTestRun, fed to StreamToDict, StreamSummary and "
                             "StreamToExtendedDecorator at once",
                    "thorough": "<= 5 events"},
            rule="non-trivial = at least 2 events", twin_fix={"n": 2},
            fidelity=lambda seed: [(3, a, b, c, 0, 0, 0) for a in range(9) for b in (0, 2, 5, 8) for c in (1, 3, 6)],
            observe=lambda n, *e: run_events([dict(H1_EV[i]) for i in e[:n]]),
            describe=lambda n, *e: run_events([dict(H1_EV[i]) for i in e[:n]])),
    Harness("acct2", h_acct2, lambda tier: [({"s0": s}, 600) for s in range(5)],
            bounds={"quick": "three events for id a: a final status in {skip, xfail, uxsuccess, exists, unknown}, then any of 7 statuses on "
                             "the same or another route, then any of 7 statuses (id re-use after a final status, same id on two routes)"},
            rule="every path non-trivial", describe=run_acct2,
            fidelity=lambda seed: [(a, b, c, r) for a in range(5) for b in (0, 1, 4) for c in (1, 2) for r in (False, True)],
            observe=run_acct2),
    Harness("files", h_files, lambda tier: [({"n": n}, 600) for n in range(4)] + [({"n": 4, "e0": e}, 900) for e in range(6)],
            bounds={"quick": "<= 4 events over {file f/g of test a, file f of test b (two mime types), final status of a / b} with "
                             "symbolic chunk bytes of length <= 1 each (any byte value, empty allowed); binary mime types"},
            rule="non-trivial = at least 2 events", sym=("b0", "b1", "b2", "b3"), twin_fix={"n": 2}),
    Harness("tags", h_tags, lambda tier: [({"n": n}, 600) for n in range(4)] + [({"n": 4, "g0": g}, 900) for g in range(4)] if tier != "quick" else
            [({"n": n}, 600) for n in range(3)] + [({"n": 3, "g0": g}, 900) for g in range(4)],
            bounds={"quick": "<= 3 events for one test with tags in {None, empty, {t}, {u}}, interim or final status, each event with a symbolic "
                             "opaque timestamp or without timestamp",
                    "thorough": "<= 4 events"},
            rule="non-trivial = at least 2 events", sym=("t0", "t1", "t2", "t3"), twin_fix={"n": 2}),
    Harness("joint", h_joint, _joint_shards,
            bounds={"quick": "<= 2 events varying all groups together: id {None,a} x route {None,0} x status {None,inprogress,success,fail} x "
                             "file {none,f} with a symbolic chunk x tags {None,{t}} x symbolic timestamp; 3 events over the sub-alphabet "
                             "with route None and no tags",
                    "thorough": "3 events: first over every 4th letter of the 64-letter alphabet, the other two over the full alphabet"},
            rule="non-trivial = at least 2 events", sym=("b0", "b1", "b2", "t0", "t1", "t2"), twin_fix={"n": 2, "red": 0}),
]
OUTSIDE = ["text attachments with symbolic payloads (StreamSummary decodes text; codecs are C): payload bytes are symbolic only with binary mime types",
           "sequences longer than the bounds; more than two test ids",
           "'exists' events through StreamToExtendedDecorator (it discards them by design)",
           "which of errors/failures a 'fail' test lands in (either is accepted; exactly one entry is required)"]
