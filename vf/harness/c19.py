"""C19 - suite utilities preserve the test set: iterate, filter_by_ids, sorted_tests, --list,
--load-list."""
import io
import os
import tempfile
import unittest

import testtools
from testtools import PlaceHolder, clone_test_with_new_id
from testtools.run import TestProgram
from testtools.testsuite import filter_by_ids, iterate_tests, sorted_tests

from vf import ch
from vf.driver import Harness

PROPERTY = "C19"
NL = 4
NOPS = NL + 16
LEAF_IDS = ["a", "b", "c", "a"]
TYPE_NAMES = ["TestSuite", "Sub", "SubSort", "SubFilter"]


class Sub(unittest.TestSuite):
    pass


class SubSort(unittest.TestSuite):
    def sort_tests(self):
        self._tests = sorted_tests(self, True)


class SubFilter(unittest.TestSuite):
    def filter_by_ids(self, test_ids):
        return SubFilter([filter_by_ids(t, test_ids) for t in self])


SUITE_TYPES = [unittest.TestSuite, Sub, SubSort, SubFilter]


class _TC(testtools.TestCase):
    def test_x(self):
        pass


class Node:
    def __init__(self, kind, ident=None, obj=None, stype=None, children=None):
        self.kind, self.ident, self.obj, self.stype, self.children = kind, ident, obj, stype, children


def build(ops, st, depth):
    if st["budget"] <= 0:
        raise ch.Prune()
    st["budget"] -= 1
    i = st["i"]
    st["i"] += 1
    op = ch.sel("o%d" % i, ops[i], NL if depth == 0 else NOPS)
    st["ops"].append(op)
    if op < NL:
        ident = LEAF_IDS[op]
        obj = PlaceHolder(ident) if op < 3 else clone_test_with_new_id(_TC("test_x"), ident)
        return Node("leaf", ident=ident, obj=obj)
    t, k = divmod(op - NL, 4)
    children = [build(ops, st, depth - 1) for _ in range(k)]
    return Node("suite", stype=t, children=children, obj=SUITE_TYPES[t]([c.obj for c in children]))


def build_concrete(oplist, depth):
    """Native rebuild from the concrete opcode list (for replays / second copies of a tree)."""
    it = iter(oplist)

    def rec(d):
        op = next(it)
        if op < NL:
            ident = LEAF_IDS[op]
            obj = PlaceHolder(ident) if op < 3 else clone_test_with_new_id(_TC("test_x"), ident)
            return Node("leaf", ident=ident, obj=obj)
        t, k = divmod(op - NL, 4)
        children = [rec(d - 1) for _ in range(k)]
        return Node("suite", stype=t, children=children, obj=SUITE_TYPES[t]([c.obj for c in children]))
    return rec(depth)


def leaves(node):
    if node.kind == "leaf":
        return [node]
    out = []
    for c in node.children:
        out += leaves(c)
    return out


def describe_tree(node):
    if node.kind == "leaf":
        return "%s(%s)" % ("PH" if isinstance(node.obj, PlaceHolder) else "TC", node.ident)
    return "%s[%s]" % (TYPE_NAMES[node.stype], ", ".join(describe_tree(c) for c in node.children))


def shape(obj):
    """Grouping of a real suite tree with empty groups dropped: nested lists of leaf ids."""
    try:
        it = iter(obj)
    except TypeError:
        return obj.id()
    out = []
    for t in it:
        s = shape(t)
        if s != []:
            out.append(s)
    return out


def ref_shape(node, keep):
    if node.kind == "leaf":
        return node.ident if keep(node.ident) else None
    out = []
    for c in node.children:
        s = ref_shape(c, keep)
        if s is not None and s != []:
            out.append(s)
    return out


# reference for sorted_tests -------------------------------------------------------------------
def ref_units(node, unpack_outer=False):
    """[(key, [leaf ids in delivered order])] per the statement."""
    if node.kind == "leaf":
        return [(node.ident, [node.ident])]
    if node.stype == 0 or unpack_outer:
        out = []
        for c in node.children:
            out += ref_units(c)
        return out
    ls = leaves(node)
    key = ls[0].ident if ls else None
    if node.stype == 2:     # has sort_tests: sorts its own content (outer unpacked)
        inner = ref_units(node, True)
        inner = sorted([u for u in inner if u[0] is not None], key=lambda u: u[0])
        ids = [i for _k, seq in inner for i in seq]
    else:
        ids = [l.ident for l in ls]
    return [(key, ids)]


def check_tree(node):
    problems = []
    ls = leaves(node)
    # 1. iterate_tests
    got = list(iterate_tests(node.obj))
    if len(got) != len(ls) or any(g is not l.obj for g, l in zip(got, ls)):
        problems.append("iterate_tests yields %r, expected the leaves in suite order" % ([g.id() for g in got],))
    return problems


def check_sorted(node, oplist, depth):
    problems = []
    ls = leaves(node)
    ids = [l.ident for l in ls]
    dup = len(set(ids)) != len(ids)
    try:
        res = sorted_tests(node.obj)
    except ValueError as e:
        if not dup:
            problems.append("sorted_tests raised ValueError without duplicate ids: %s" % e)
        return problems
    except Exception as e:
        problems.append("sorted_tests raised %s: %s (duplicates present: %s)" % (type(e).__name__, e, dup))
        return problems
    if dup:
        problems.append("sorted_tests did not raise ValueError although ids %r contain a duplicate" % (ids,))
        return problems
    units = ref_units(node)
    units = sorted([u for u in units if u[0] is not None], key=lambda u: u[0])
    want = [i for _k, seq in units for i in seq]
    got = [t.id() for t in iterate_tests(res)]
    if got != want:
        problems.append("sorted_tests order %r, expected %r" % (got, want))
    got_objs = sorted(id(t) for t in iterate_tests(res))
    if got_objs != sorted(id(l.obj) for l in ls):
        problems.append("sorted_tests does not return the same test objects")
    return problems


class SymIds:
    """A container supporting __contains__ whose membership bits may be symbolic."""

    def __init__(self, bits):
        self.bits = bits
        self.asked = set()

    def __contains__(self, ident):
        self.asked.add(ident)
        return ch.cbool(self.bits.get(ident, False))


def check_filter(node, bits):
    problems = []
    ls = leaves(node)
    ids = SymIds(bits)
    try:
        res = filter_by_ids(node.obj, ids)
    except Exception as e:
        return ["filter_by_ids raised %s: %s" % (type(e).__name__, e)], ids
    keep = lambda i: ch.cbool(bits.get(i, False))  # noqa: E731
    want = [l for l in ls if keep(l.ident)]
    got = list(iterate_tests(res))
    if len(got) != len(want) or any(g is not w.obj for g, w in zip(got, want)):
        problems.append("filter_by_ids leaves %r, expected %r" % ([g.id() for g in got], [w.ident for w in want]))
    if node.kind == "leaf":
        want_shape = node.ident if keep(node.ident) else []
    else:
        want_shape = ref_shape(node, keep)
    if shape(res) != want_shape:
        problems.append("grouping after filter %r, expected %r" % (shape(res), want_shape))
    return problems, ids


# --- harnesses --------------------------------------------------------------------------------
def h_tree(o0: int, o1: int, o2: int, o3: int, o4: int, o5: int, o6: int, budget: int, depth: int) -> bool:
    """
    pre: 0 <= o0 < 20 and 0 <= o1 < 20 and 0 <= o2 < 20 and 0 <= o3 < 20 and 0 <= o4 < 20
    pre: 0 <= o5 < 20 and 0 <= o6 < 20 and 1 <= budget <= 7 and 0 <= depth <= 4
    post: _
    """
    try:
        b = ch.sel("budget", budget, 8)
        d = ch.sel("depth", depth, 5)
        st = {"i": 0, "budget": b, "ops": []}
        node = build([o0, o1, o2, o3, o4, o5, o6], st, d)
    except (ch.Prune, IndexError):
        return True
    v = {"tree": describe_tree(node)}
    if ch.excluded(v):
        return True
    problems = check_tree(node) + check_sorted(node, st["ops"], d)
    ch.LAST["problems"] = problems
    return ch.finish(not problems, v, nontrivial=len(st["ops"]) >= 2)


def h_filter(o0: int, o1: int, o2: int, o3: int, o4: int, budget: int, depth: int,
             ba: bool, bb: bool, bc: bool) -> bool:
    """
    pre: 0 <= o0 < 20 and 0 <= o1 < 20 and 0 <= o2 < 20 and 0 <= o3 < 20 and 0 <= o4 < 20
    pre: 1 <= budget <= 5 and 0 <= depth <= 4
    post: _
    """
    try:
        b = ch.sel("budget", budget, 6)
        d = ch.sel("depth", depth, 5)
        st = {"i": 0, "budget": b, "ops": []}
        node = build([o0, o1, o2, o3, o4], st, d)
    except (ch.Prune, IndexError):
        return True
    problems, ids = check_filter(node, {"a": ba, "b": bb, "c": bc})
    v = {"tree": describe_tree(node),
         "ids": tuple(sorted(i for i in ids.asked if ch.cbool(ids.bits.get(i, False))))}
    ch.LAST["problems"] = problems
    return ch.finish(not problems, v, nontrivial=len(st["ops"]) >= 2)


class _Loader:
    def __init__(self, suite):
        self.suite = suite
        self.errors = []

    def loadTestsFromNames(self, names, module=None):
        return self.suite


class _Runner:
    ran = None

    def __init__(self, **kw):
        pass

    def run(self, test):
        from testtools.testresult.doubles import ExtendedTestResult
        r = ExtendedTestResult()
        test.run(r)
        _Runner.ran = [e[1].id() for e in r._events if e[0] == "startTest"]
        return r


def run_program(oplist, depth, mode, mask):
    node = build_concrete(oplist, depth)
    ls = leaves(node)
    problems = []
    if mode == 0:
        out = io.StringIO()
        try:
            TestProgram(module=None, argv=["prog", "--list", "x"], testLoader=_Loader(node.obj), stdout=out,
                        exit=False)
        except SystemExit as e:
            problems.append("--list exited with %r" % (e.code,))
        got = out.getvalue().splitlines()
        want = [l.ident for l in ls]
        if got != want:
            problems.append("--list printed %r, expected %r" % (got, want))
        return {"tree": describe_tree(node), "printed": got, "problems": problems}
    chosen = [n for k, n in enumerate(["a", "b", "c", "z"]) if mask & (1 << k)]
    fd, path = tempfile.mkstemp(prefix="vf_c19_")
    try:
        # list-file formats: newline-terminated; last line without a newline; CRLF with padding and a blank line
        if mode == 2:
            text = "\n".join(chosen)
        elif mode == 3:
            text = "".join("  %s \r\n" % c for c in chosen) + "\r\n"
        else:
            text = "\n".join(chosen) + "\n"
        os.write(fd, text.encode("utf8"))
        os.close(fd)
        _Runner.ran = None
        try:
            TestProgram(module=None, argv=["prog", "--load-list", path, "x"], testLoader=_Loader(node.obj),
                        testRunner=_Runner, stdout=io.StringIO(), exit=False)
        except SystemExit as e:
            problems.append("--load-list exited with %r" % (e.code,))
    finally:
        os.unlink(path)
    want = [l.ident for l in ls if l.ident in chosen]
    if _Runner.ran != want:
        problems.append("--load-list ran %r, expected %r" % (_Runner.ran, want))
    return {"tree": describe_tree(node), "listed": chosen, "ran": _Runner.ran, "problems": problems}


def h_program(o0: int, o1: int, o2: int, o3: int, budget: int, depth: int, mode: int, mask: int) -> bool:
    """
    pre: 0 <= o0 < 20 and 0 <= o1 < 20 and 0 <= o2 < 20 and 0 <= o3 < 20
    pre: 1 <= budget <= 4 and 0 <= depth <= 3 and 0 <= mode < 4 and 0 <= mask < 16
    post: _
    """
    try:
        b = ch.sel("budget", budget, 5)
        d = ch.sel("depth", depth, 4)
        st = {"i": 0, "budget": b, "ops": []}
        build([o0, o1, o2, o3], st, d)
        md = ch.sel("mode", mode, 4)
        mk = ch.sel("mask", mask, 16) if md >= 1 else 0
    except (ch.Prune, IndexError):
        return True
    o = run_program(st["ops"], d, md, mk)
    v = {"tree": o["tree"], "mode": md, "mask": mk}
    ch.LAST["problems"] = o["problems"]
    return ch.finish(not o["problems"], v, nontrivial=len(st["ops"]) >= 2)


def _tree_shards(tier):
    out = []
    if tier == "quick":
        cfgs = [(4, 3), (5, 2)]
    else:
        cfgs = [(5, 3), (6, 2)]
    for b, d in cfgs:
        out.append(({"budget": b, "depth": d, "o0": 0}, 300))      # root leaf: trivial
        for o0 in range(NL, NOPS):
            k = (o0 - NL) % 4
            if k >= 2 and b >= 5:
                out += [({"budget": b, "depth": d, "o0": o0, "o1": o1}, 1800) for o1 in range(NOPS)]
            else:
                out.append(({"budget": b, "depth": d, "o0": o0}, 1800))
    return out


def _filter_shards(tier):
    b, d = (3, 2) if tier == "quick" else (4, 3)
    return [({"budget": b, "depth": d, "o0": o0}, 1200) for o0 in range(NOPS)]


def _program_shards(tier):
    b, d = (3, 2) if tier == "quick" else (4, 2)
    b2 = 2 if tier == "quick" else b
    return ([({"budget": b, "depth": d, "mode": 0}, 900)] + [({"budget": b, "depth": d, "mode": 1, "o0": o0}, 900) for o0 in range(NL, NOPS)]
            + [({"budget": b2, "depth": d, "mode": m}, 900) for m in (2, 3)])


def _tree_from_args(ops, budget, depth):
    st = {"i": 0, "budget": budget, "ops": []}
    saved = dict(ch.FIX)
    ch.FIX = {}
    try:
        return build(list(ops), st, depth), st
    finally:
        ch.FIX = saved


def _describe_tree_h(o0, o1, o2, o3, o4, o5, o6, budget, depth):
    node, st = _tree_from_args([o0, o1, o2, o3, o4, o5, o6], budget, depth)
    return {"tree": describe_tree(node), "problems": check_tree(node) + check_sorted(node, st["ops"], depth)}


def _describe_filter(o0, o1, o2, o3, o4, budget, depth, ba, bb, bc):
    node, st = _tree_from_args([o0, o1, o2, o3, o4], budget, depth)
    t = describe_tree(node)
    problems, ids = check_filter(node, {"a": ba, "b": bb, "c": bc})
    return {"tree": t, "ids": {"a": ba, "b": bb, "c": bc}, "problems": problems}


HARNESSES = [
    Harness("tree", h_tree, _tree_shards,
            bounds={"quick": "all suite trees given as pre-order opcode lists with <= 4 nodes (depth <= 3) and <= 5 nodes (depth <= 2): "
                             "leaves PlaceHolder a/b/c and a TestCase with id a (duplicates possible), suites of 4 kinds (plain TestSuite, "
                             "subclass, subclass with sort_tests, subclass with filter_by_ids) with 0..3 children (empty suites included); "
                             "iterate_tests and sorted_tests",
                    "thorough": "<= 5 nodes (depth <= 3) and <= 6 nodes (depth <= 2)"},
            rule="one tree per path; non-trivial = at least 2 nodes", twin_fix={"budget": 3, "depth": 2, "o0": 9},
            fidelity=lambda seed: [(9, 0, 1, 0, 0, 0, 0, 3, 2), (13, 10, 2, 0, 1, 0, 0, 5, 2), (6, 0, 1, 0, 0, 0, 0, 3, 2),
                                   (14, 1, 0, 2, 0, 0, 0, 4, 2), (10, 16, 0, 1, 0, 0, 0, 4, 2)],
            observe=lambda *a: _describe_tree_h(*a), describe=_describe_tree_h),
    Harness("filter", h_filter, _filter_shards,
            bounds={"quick": "trees with <= 3 nodes (depth <= 2) x every subset of ids given as a container with symbolic membership bits "
                             "for a, b, c (any other id absent)",
                    "thorough": "trees with <= 4 nodes (depth <= 3)"},
            rule="non-trivial = at least 2 nodes; distinct by (tree, ids asked and present)", sym=("ba", "bb", "bc"),
            twin_fix={"budget": 3, "depth": 2, "o0": 9}, describe=_describe_filter),
    Harness("program", h_program, _program_shards,
            bounds={"quick": "TestProgram in-process (custom loader returning the generated suite): --list for every tree with <= 3 nodes; "
                             "--load-list (real temporary list file) for every tree with <= 3 nodes x every subset of {a, b, c, z}; the list file also "
                             "without a final newline and as CRLF with padding and a blank line (trees with <= 2 nodes)",
                    "thorough": "<= 4 nodes"},
            rule="non-trivial = at least 2 nodes", twin_fix={"budget": 3, "depth": 2, "mode": 0},
            describe=lambda o0, o1, o2, o3, budget, depth, mode, mask: run_program(
                _tree_from_args([o0, o1, o2, o3], budget, depth)[1]["ops"], depth, mode, mask)),
]
OUTSIDE = ["trees larger than the node/depth bounds; more than 3 distinct ids",
           "exit status / stdout of a real `python -m testtools.run` subprocess (TestProgram is driven in-process)",
           "discovery (TestProgram discover), which sorts with sorted_tests (covered directly)"]
