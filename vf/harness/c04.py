"""C04 - run verdict and stop control are consistent with the outcomes reported."""
import io
import re
import sys
import threading
import unittest

import testtools
from testtools import PlaceHolder
from testtools.content import text_content
from testtools.run import TestProgram, TestToolsTestRunner
from testtools.testresult import doubles
from testtools.testresult.real import (ExtendedToOriginalDecorator, ExtendedToStreamDecorator, MultiTestResult,
                                       Tagger, TestResult, TextTestResult, ThreadsafeForwardingResult)

from vf import ch, programs as P
from vf.driver import Harness

PROPERTY = "C04"
OUTCOMES = ["success", "failure", "error", "skip", "xfail", "uxsuccess"]
BAD = ("failure", "error", "uxsuccess")
STEPS = ["startTestRun", "stopTestRun", "stop()"] + ["test:" + o for o in OUTCOMES]
STACKS = ["TestResult", "TextTestResult", "MultiTestResult(TestResult)", "MultiTestResult(TestResult, TestResult)",
          "ThreadsafeForwardingResult(TestResult)", "ExtendedToOriginalDecorator(TestResult)",
          "ExtendedToOriginalDecorator(py27 double)", "ExtendedToStreamDecorator(stream double)", "Tagger(TestResult)",
          "ExtendedToOriginalDecorator(py26 double)", "ExtendedToOriginalDecorator(Tagger(TestResult))"]
VERDICT_CHECKED = (0, 1, 2, 3, 4, 5, 8, 10)


def _exc_info():
    try:
        raise RuntimeError("boom")
    except RuntimeError:
        return sys.exc_info()


def build(stack, ffmode):
    """ffmode 0: off; 1: set on the underlying result(s) before wrapping; 2: set on the outermost object after
    wrapping. Returns (outer, underlying results, text stream)."""
    ff = ffmode == 1
    stream = None
    if stack == 0:
        inner = [TestResult(failfast=ff)]
        outer = inner[0]
    elif stack == 1:
        stream = io.StringIO()
        inner = [TextTestResult(stream, failfast=ff)]
        outer = inner[0]
    elif stack == 2:
        inner = [TestResult(failfast=ff)]
        outer = MultiTestResult(inner[0])
    elif stack == 3:
        inner = [TestResult(failfast=ff), TestResult(failfast=ff)]
        outer = MultiTestResult(*inner)
    elif stack == 4:
        inner = [TestResult(failfast=ff)]
        outer = ThreadsafeForwardingResult(inner[0], threading.Semaphore(1))
    elif stack == 5:
        inner = [TestResult(failfast=ff)]
        outer = ExtendedToOriginalDecorator(inner[0])
    elif stack == 6:
        inner = [doubles.Python27TestResult()]
        inner[0].failfast = ff
        outer = ExtendedToOriginalDecorator(inner[0])
    elif stack == 7:
        inner = []
        outer = ExtendedToStreamDecorator(doubles.StreamResult())
        if ff:
            outer.failfast = True
    elif stack == 8:
        inner = [TestResult(failfast=ff)]
        outer = Tagger(inner[0], iter(["x"]), ())
    elif stack == 9:
        inner = [doubles.Python26TestResult()]
        outer = ExtendedToOriginalDecorator(inner[0])
    else:
        # a decorated result without a failfast attribute of its own: the decorator keeps the flag itself
        inner = [TestResult(failfast=ff)]
        outer = ExtendedToOriginalDecorator(Tagger(inner[0], {"x"}, set()))
    if ffmode == 2:
        outer.failfast = True
    return outer, inner, stream


def applicable(stack, ffmode):
    if stack == 8 and ffmode == 2:
        return False     # TestResultDecorator defines no failfast attribute
    if stack == 9 and ffmode == 1:
        return False     # a 2.6-style result has no failfast
    return True


SUITE_STACKS = [0, 1, 2, 3, 4, 5, 10]


def report(res, test, outcome, as_details):
    res.startTest(test)
    m = getattr(res, P.EVENT[outcome])
    if as_details:
        m(test, details={"d": text_content("x")})
    elif outcome in ("success", "uxsuccess"):
        m(test)
    elif outcome == "skip":
        m(test, "why")
    else:
        m(test, _exc_info())
    res.stopTest(test)


def run_history(stack, ffmode, steps, as_details):
    outer, inner, stream = build(stack, ffmode)
    problems = []
    bad = False
    stop_req = False
    n_tests = 0
    n_bad_list = []
    ff = ffmode != 0
    log = []
    in_run = False
    for st in steps:
        log.append(STEPS[st])
        try:
            if st == 0:
                outer.startTestRun()
                bad, stop_req, n_tests, n_bad_list = False, False, 0, []
                in_run = True
            elif st == 1:
                outer.stopTestRun()
            elif st == 2:
                outer.stop()
                stop_req = True
            else:
                oc = OUTCOMES[st - 3]
                n_tests += 1
                report(outer, PlaceHolder("t%d" % n_tests), oc, as_details)
                if oc in BAD:
                    bad = True
                    n_bad_list.append(oc)
        except Exception as e:
            problems.append("[%s] raised %s: %s" % (" ; ".join(log), type(e).__name__, e))
            break
        if stack in VERDICT_CHECKED:
            ws = outer.wasSuccessful()
            if ws != (not bad):
                problems.append("after [%s]: wasSuccessful() is %s, expected %s" % (" ; ".join(log), ws, not bad))
                break
            for k, r in enumerate(inner):
                if r.wasSuccessful() != (not bad):
                    problems.append("after [%s]: underlying result %d wasSuccessful() is %s" % (" ; ".join(log), k, r.wasSuccessful()))
        want_stop = stop_req or (ff and bad)
        got_stop = bool(outer.shouldStop)
        if got_stop != want_stop:
            problems.append("after [%s]: shouldStop is %s, expected %s (failfast %s)" % (
                " ; ".join(log), got_stop, want_stop, ["off", "set before wrapping", "set after wrapping"][ffmode]))
            break
        for k, r in enumerate(inner):
            if bool(r.shouldStop) != want_stop:
                problems.append("after [%s]: underlying result %d shouldStop is %s, expected %s" % (
                    " ; ".join(log), k, r.shouldStop, want_stop))
        if problems:
            break
        if st == 1 and stream is not None and in_run:
            text = stream.getvalue()
            last = text[text.rfind("Tests running..."):]
            m = re.search(r"Ran (\d+) tests? in", last)
            if not m or int(m.group(1)) != n_tests:
                problems.append("summary test count: %r, expected %d" % (m and m.group(0), n_tests))
            ok_line = re.search(r"^OK$", last, re.M) is not None
            failed = re.search(r"^FAILED \(failures=(\d+)\)$", last, re.M)
            if bad:
                if ok_line or not failed or int(failed.group(1)) != len(n_bad_list):
                    problems.append("summary says %r for %d problems" % (last[-60:], len(n_bad_list)))
            elif not ok_line or failed:
                problems.append("summary does not say OK: %r" % (last[-60:],))
            if last.count("=" * 70) != len(n_bad_list):
                problems.append("summary has %d problem sections, expected %d" % (last.count("=" * 70), len(n_bad_list)))
            in_run = False
    return {"stack": STACKS[stack], "failfast": ["off", "before wrapping", "after wrapping"][ffmode], "history": log,
            "problems": problems}


def h_hist(stack: int, ffmode: int, n: int, s0: int, s1: int, s2: int, s3: int, s4: int, as_details: bool) -> bool:
    """
    pre: 0 <= stack < 11 and 0 <= ffmode < 3 and 0 <= n <= 5
    pre: 0 <= s0 < 9 and 0 <= s1 < 9 and 0 <= s2 < 9 and 0 <= s3 < 9 and 0 <= s4 < 9
    post: _
    """
    try:
        sk = ch.sel("stack", stack, 11)
        fm = ch.sel("ffmode", ffmode, 3)
        if not applicable(sk, fm):
            return True
        nn = ch.sel("n", n, 6)
        raw = [s0, s1, s2, s3, s4]
        steps = [ch.sel("s%d" % k, raw[k], 9) for k in range(nn)]
        ad = ch.cbool(as_details)
    except ch.Prune:
        return True
    # text summary needs a startTestRun before stopTestRun; a stream converter starts itself
    if sk == 1:
        started = False
        for s in steps:
            if s == 0:
                started = True
            if s == 1 and not started:
                return True
    if sk == 7:
        # a stream converter starts its run itself at the first test; stop()/stopTestRun before that are ill-ordered
        started = False
        for s in steps:
            if s == 0 or s >= 3:
                started = True
            if s in (1, 2) and not started:
                return True
    if sk in (6, 9):
        # the doubles do not reset shouldStop in startTestRun: only histories where nothing has to be reset
        dirty = False
        for s in steps:
            if s == 2 or (s >= 3 and OUTCOMES[s - 3] in BAD):
                dirty = True
            if s == 0 and dirty:
                return True
    v = dict(stack=sk, ffmode=fm, steps=tuple(steps), as_details=ad)
    v["multi_before"] = sk in (2, 3) and fm == 1
    v["tfr_after"] = sk == 4 and fm == 2
    if ch.excluded(v):
        return True
    o = run_history(sk, fm, steps, ad)
    ch.LAST.update(o)
    return ch.finish(not o["problems"], v, nontrivial=any(s >= 3 for s in steps))


# --- real suites and the runner -----------------------------------------------------------------
class _Gen(testtools.TestCase):
    def test_x(self):
        P.behave(self, self._kind)


KIND_OF = {"success": P.RET, "failure": P.FAIL, "error": P.ERROR, "skip": P.SKIP, "xfail": P.XFAIL, "uxsuccess": P.UXS}


def make_suite(outs):
    tests = []
    for i, o in enumerate(outs):
        t = testtools.clone_test_with_new_id(_Gen("test_x"), "gen.t%d" % i)
        t._kind = KIND_OF[o]
        tests.append(t)
    return unittest.TestSuite(tests), tests


def run_suite(stack, ffmode, o0, o1, o2, mode, nt=3):
    outs = [OUTCOMES[o0], OUTCOMES[o1], OUTCOMES[o2]][:nt]
    problems = []
    first_bad = next((i for i, o in enumerate(outs) if o in BAD), None)
    anybad = first_bad is not None
    if mode == 0:
        outer, inner, stream = build(stack, ffmode)
        suite, tests = make_suite(outs)
        outer.startTestRun()
        suite.run(outer)
        outer.stopTestRun()
        want = nt if (ffmode == 0 or first_bad is None) else first_bad + 1
        ran = [r.testsRun for r in inner]
        if any(x != want for x in ran):
            problems.append("suite dispatched %r tests, expected %d (failfast %d, outcomes %r)" % (ran, want, ffmode, outs))
        return {"problems": problems}
    # mode 1: TestToolsTestRunner / TestProgram in-process
    suite, tests = make_suite(outs)

    class Loader:
        errors = []

        def loadTestsFromNames(self, names, module=None):
            return suite

    out = io.StringIO()
    code = "no-exit"
    try:
        TestProgram(module=None, argv=["prog"] + (["--failfast"] if ffmode else []) + ["x"], testLoader=Loader(),
                    stdout=out, exit=True,
                    testRunner=lambda **kw: TestToolsTestRunner(**dict(kw, stdout=out)))
    except SystemExit as e:
        code = e.code
    text = out.getvalue()
    if bool(code) != anybad or code == "no-exit":
        problems.append("exit status %r for outcomes %r" % (code, outs))
    m = re.search(r"Ran (\d+) tests? in", text)
    want = nt if (ffmode == 0 or first_bad is None) else first_bad + 1
    if not m or int(m.group(1)) != want:
        problems.append("runner ran %r tests, expected %d" % (m and m.group(1), want))
    if (re.search(r"^OK$", text, re.M) is not None) == anybad and want == nt:
        problems.append("summary OK/FAILED inconsistent with outcomes %r: %r" % (outs, text[-80:]))
    return {"problems": problems, "exit": code}


def h_suite(stack: int, ffmode: int, o0: int, o1: int, o2: int, mode: int, nt: int) -> bool:
    """
    pre: 0 <= stack < 7 and 0 <= ffmode < 3 and 0 <= o0 < 6 and 0 <= o1 < 6 and 0 <= o2 < 6 and 0 <= mode < 2
    pre: 0 <= nt <= 3
    post: _
    """
    try:
        md = ch.sel("mode", mode, 2)
        sk = SUITE_STACKS[ch.sel("stack", stack, 7)] if md == 0 else 0
        fm = ch.sel("ffmode", ffmode, 3 if md == 0 else 2)
        n = ch.sel("nt", nt, 4)
        v = dict(mode=md, stack=sk, ffmode=fm, nt=n, o0=ch.sel("o0", o0, 6) if n >= 1 else 0,
                 o1=ch.sel("o1", o1, 6) if n >= 2 else 0, o2=ch.sel("o2", o2, 6) if n >= 3 else 0)
    except ch.Prune:
        return True
    v["multi_before"] = sk in (2, 3) and fm == 1
    v["tfr_after"] = sk == 4 and fm == 2
    if ch.excluded(v):
        return True
    o = run_suite(sk, fm, v["o0"], v["o1"], v["o2"], md, v["nt"])
    ch.LAST.update(o)
    return ch.finish(not o["problems"], v, nontrivial=True)


def _hist_shards(tier):
    out = []
    top = 3 if tier == "quick" else 4
    for sk in range(11):
        for fm in range(3):
            if not applicable(sk, fm):
                continue
            out += [({"stack": sk, "ffmode": fm, "n": n}, 900) for n in range(top)]
            out += [({"stack": sk, "ffmode": fm, "n": top, "s0": s}, 1800) for s in range(9)]
    return out


HARNESSES = [
    Harness("hist", h_hist, _hist_shards,
            bounds={"quick": "every history of <= 3 steps over {startTestRun, stopTestRun, stop(), one test with each of the 6 outcomes "
                             "(given as exc_info/plain or as details)} x 11 result stacks (TestResult, TextTestResult, MultiTestResult x1/x2, "
                             "ThreadsafeForwardingResult, ExtendedToOriginalDecorator over TestResult / 2.7 / 2.6 doubles, "
                             "ExtendedToStreamDecorator with StreamFailFast, Tagger, ExtendedToOriginalDecorator over a Tagger) x failfast {off, set before wrapping, set after wrapping}; "
                             "wasSuccessful()/shouldStop checked after every call on the outer object and every underlying result; "
                             "TextTestResult summary parsed at each stopTestRun",
                    "thorough": "histories of <= 4 steps"},
            rule="non-trivial = at least one test reported", twin_fix={"stack": 0, "ffmode": 0, "n": 2},
            fidelity=lambda seed: [(s, f, 3, 0, 4, 1, 0, 0, d) for s in range(11) for f in range(3) if applicable(s, f) for d in (False, True)],
            observe=lambda stack, ffmode, n, s0, s1, s2, s3, s4, ad: run_history(stack, ffmode, [s0, s1, s2, s3, s4][:n], ad)["problems"],
            describe=lambda stack, ffmode, n, s0, s1, s2, s3, s4, ad: run_history(stack, ffmode, [s0, s1, s2, s3, s4][:n], ad)),
    Harness("suite", h_suite, lambda tier: [({"mode": 0, "stack": s, "ffmode": f}, 900) for s in range(7) for f in range(3)] +
            [({"mode": 1, "ffmode": f}, 900) for f in range(2)],
            bounds={"quick": "a unittest.TestSuite of 0..3 generated TestCases (every tuple of outcomes) run against 6 result stacks x "
                             "failfast modes: number of tests dispatched; TestProgram/TestToolsTestRunner in-process (--failfast on/off): "
                             "SystemExit status, 'Ran N tests', OK/FAILED"},
            rule="every path non-trivial", twin_fix={"mode": 0, "stack": 0, "ffmode": 0},
            describe=run_suite),
]
OUTSIDE = ["exit status of a real `python -m testtools.run` subprocess (TestProgram is run in-process: SystemExit is observed)",
           "elapsed-time text of the summary",
           "wasSuccessful() of non-testtools targets (2.6/2.7 doubles) and of ExtendedToStreamDecorator (a StreamSummary)",
           "failfast assigned on a TestResultDecorator/Tagger object (the class defines no failfast attribute)"]
