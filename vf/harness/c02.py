"""C02 - stages run in order; every cleanup runs exactly once, LIFO, whatever failed; patches
restored; the same instance can be run again with the same sequence and outcome."""
import fixtures
import testtools

from vf import ch, lifecycle as L, programs as P
from vf.driver import Harness

PROPERTY = "C02"
# reduced behaviour alphabet for stages and cleanups
K5 = [P.RET, P.FAIL, P.ERROR, P.SKIP, P.KI]
K7 = [P.RET, P.FAIL, P.ERROR, P.SKIP, P.KI, P.XFAIL, P.MULTI]
# action types
A_NONE = 0
# 1..nk        cleanup with kind index
# nk+1 patch existing, nk+2 patch missing, nk+3 fx ok, nk+4 fx setUp fails, nk+5 fx cleanUp fails,
# nk+6 nested fixture
SITES = ["setUp-before-upcall", "setUp-after-upcall", "body", "tearDown", "inside-cleanup-of-action-0"]
MISSING = "<missing>"
# initial state of the patched attribute: 0 absent, 1 "orig" on a plain object, 2 None on a plain object,
# 3 "orig" stored in a __slots__ object, 4 "orig" behind a read-write property without deleter
INITIAL = {0: MISSING, 1: "orig", 2: None, 3: "orig", 4: "orig", False: MISSING, True: "orig"}


class SlotTarget:
    __slots__ = ("attr",)


class PropTarget:
    def __init__(self):
        self._v = None

    def _get(self):
        return self._v

    def _set(self, v):
        self._v = v

    attr = property(_get, _set)


def make_target(existing):
    if existing == 3:
        t = SlotTarget()
    elif existing == 4:
        t = PropTarget()
    else:
        t = Target()
    if existing:
        t.attr = INITIAL[existing]
    return t


class Target:
    pass


def decode_action(code, kinds):
    """code in 0..len(kinds)+5 -> (typ, param)."""
    nk = len(kinds)
    if code < nk:
        return ("cleanup", kinds[code])
    code -= nk
    return [("patch", "existing"), ("patch", "missing"), ("fx", "ok"), ("fx", "setupfail"),
            ("fx", "cleanupfail"), ("fx", "nested")][code]


def is_fault(typ, par):
    return (typ == "cleanup" and par != P.RET) or (typ == "fx" and par in ("setupfail", "cleanupfail"))


def reference(su, body, td, acts, existing):
    """Reference interpreter of the statement. Returns (log, leftover_attr, raised_any)."""
    log, stack = [], []
    attr = [INITIAL[existing]]

    class Abort(Exception):
        pass

    def do_site(site):
        for i, (s, typ, par) in enumerate(acts):
            if s != site:
                continue
            if typ == "cleanup":
                stack.append(("cleanup", i, par))
            elif typ == "patch":
                stack.append(("unpatch", i, attr[0]))
                attr[0] = "p%d" % i
            elif typ == "fx":
                log.append("fx%d.setUp" % i)
                if par == "setupfail":
                    log.append("fx%d.undo" % i)
                    raise Abort()
                if par == "nested":
                    log.append("fx%d.in.setUp" % i)
                stack.append(("fxcleanup", i, par))

    def stage(name, sites, kind):
        log.append("%s@%s" % (name, attr[0]))
        try:
            for s in sites:
                do_site(s)
        except Abort:
            return False
        return kind == P.RET

    ok = stage("setUp", [0, 1], su)
    if ok:
        stage("body", [2], body)
        stage("tearDown", [3], td)
    while stack:
        typ, i, par = stack.pop()
        if typ == "cleanup":
            stage("cleanup%d" % i, [4] if i == 0 else [], par)
        elif typ == "unpatch":
            attr[0] = par
        else:
            if par == "nested":
                log.append("fx%d.in.cleanUp" % i)
            log.append("fx%d.cleanUp" % i)
    return log, attr[0]


def build(su, body, td, acts, existing, log, target):
    def cur():
        return getattr(target, "attr", MISSING)

    def make_fixture(i, par):
        class Inner(fixtures.Fixture):
            def _setUp(self):
                log.append("fx%d.in.setUp" % i)
                self.addCleanup(log.append, "fx%d.in.cleanUp" % i)

        class Fx(fixtures.Fixture):
            def _setUp(self):
                log.append("fx%d.setUp" % i)
                if par == "setupfail":
                    self.addCleanup(log.append, "fx%d.undo" % i)
                    raise RuntimeError("fixture setUp failed")
                if par == "cleanupfail":
                    self.addCleanup(self._boom)
                self.addCleanup(log.append, "fx%d.cleanUp" % i)
                if par == "nested":
                    self.useFixture(Inner())

            def _boom(self):
                raise RuntimeError("fixture cleanUp failed")
        return Fx()

    def do_site(case, site):
        for i, (s, typ, par) in enumerate(acts):
            if s != site:
                continue
            if typ == "cleanup":
                case.addCleanup(case._cleanup, i, par)
            elif typ == "patch":
                case.patch(target, "attr", "p%d" % i)
            elif typ == "fx":
                case.useFixture(make_fixture(i, par))

    class Gen(testtools.TestCase):
        def setUp(self):
            log.append("setUp@%s" % cur())
            do_site(self, 0)
            super().setUp()
            do_site(self, 1)
            P.behave(self, su)

        def test_it(self):
            log.append("body@%s" % cur())
            do_site(self, 2)
            P.behave(self, body)

        def tearDown(self):
            log.append("tearDown@%s" % cur())
            do_site(self, 3)
            super().tearDown()
            P.behave(self, td)

        def _cleanup(self, i, k):
            log.append("cleanup%d@%s" % (i, cur()))
            if i == 0:
                do_site(self, 4)
            P.behave(self, k)

    return Gen("test_it")


def run_c02(su, body, td, acts, existing):
    target = make_target(existing)
    log = []
    case = build(su, body, td, acts, existing, log, target)
    names1, exc1, _ = L.run_once(case, P.FEXT)
    log1 = list(log)
    left1 = len(case._cleanups)
    attr1 = getattr(target, "attr", MISSING)
    del log[:]
    names2, exc2, _ = L.run_once(case, P.FEXT)
    log2 = list(log)
    exp_log, exp_attr = reference(su, body, td, acts, existing)
    problems = []
    if log1 != exp_log:
        problems.append("execution log differs from the reference: %r vs expected %r" % (log1, exp_log))
    if left1 != 0 or len(case._cleanups) != 0:
        problems.append("cleanups left registered after run()")
    if attr1 != exp_attr or getattr(target, "attr", MISSING) != exp_attr:
        problems.append("patched attribute not restored: %r" % (attr1,))
    if exp_attr != INITIAL[existing] and not (exp_attr is None and INITIAL[existing] is None):
        problems.append("REFERENCE BUG: reference leaves attribute patched")
    if log2 != log1 or names2 != names1 or type(exc1) is not type(exc2):
        problems.append("second run differs: %r/%r vs %r/%r" % (log2, names2, log1, names1))
    ok_br, _seen = L.outcome_of(names1, P.FEXT)
    if not ok_br:
        problems.append("not one outcome: %r" % (names1,))
    return {"log": log1, "expected_log": exp_log, "names": names1, "attr": attr1, "problems": problems}


def decode(v, kinds):
    acts = []
    for j in range(v["nact"]):
        typ, par = decode_action(v["a%d" % j], kinds)
        acts.append((v["s%d" % j], typ, par))
    return acts


def valid(acts):
    # site 4 = registered while action 0's cleanup runs: action 0 must be a cleanup at site 0..3
    for j, (s, typ, par) in enumerate(acts):
        if s == 4 and (j == 0 or acts[0][1] != "cleanup" or acts[0][0] == 4):
            return False
    return True


def _pick(su, body, td, nact, s0, a0, s1, a1, s2, a2, existing, mf, tier_kinds):
    kinds = K5 if tier_kinds == 0 else K7
    nk = len(kinds)
    na = nk + 6
    v = {"mf": ch.sel("mf", mf, 5), "tk": tier_kinds}
    left = [v["mf"]]

    def kind(name, x):
        if left[0] <= 0:
            return 0
        k = ch.sel(name, x, nk)
        if k != 0:
            left[0] -= 1
        return k

    v["su"] = kind("su", su)
    if v["su"] == 0:
        v["body"] = kind("body", body)
        v["td"] = kind("td", td)
    else:
        v["body"] = v["td"] = 0
    v["nact"] = ch.sel("nact", nact, 4)
    raw = [(s0, a0), (s1, a1), (s2, a2)]
    for j in range(v["nact"]):
        v["s%d" % j] = ch.sel("s%d" % j, raw[j][0], 5)
        a = ch.sel("a%d" % j, raw[j][1], na)
        typ, par = decode_action(a, kinds)
        if is_fault(typ, par):
            if left[0] <= 0:
                raise ch.Prune()
            left[0] -= 1
        v["a%d" % j] = a
    # the initial state of the attribute only matters when something patches it
    has_patch = any(decode_action(v["a%d" % j], kinds)[0] == "patch" for j in range(v["nact"]))
    # absent / present for every program; the rarer kinds of attribute (None-valued, __slots__, property) for
    # programs with at most two actions of which exactly one is a patch
    n_patch = sum(1 for j in range(v["nact"]) if decode_action(v["a%d" % j], kinds)[0] == "patch")
    if not has_patch:
        v["existing"] = 1
    elif n_patch == 1 and left[0] >= 1:
        v["existing"] = ch.sel("existing", existing, 5)
    else:
        v["existing"] = ch.sel("existing", existing, 2)
    return v, kinds


def h_order(su: int, body: int, td: int, nact: int, s0: int, a0: int, s1: int, a1: int,
            s2: int, a2: int, existing: int, mf: int, tk: int) -> bool:
    """
    pre: 0 <= existing < 5
    pre: 0 <= su < 7 and 0 <= body < 7 and 0 <= td < 7 and 0 <= nact < 4 and 0 <= mf < 5
    pre: 0 <= s0 < 5 and 0 <= s1 < 5 and 0 <= s2 < 5 and 0 <= a0 < 13 and 0 <= a1 < 13 and 0 <= a2 < 13
    pre: 0 <= tk < 2
    post: _
    """
    try:
        t = ch.sel("tk", tk, 2)
        v, kinds = _pick(su, body, td, nact, s0, a0, s1, a1, s2, a2, existing, mf, t)
    except ch.Prune:
        return True
    acts = decode(v, kinds)
    if not valid(acts):
        ch.STATS["pruned"] += 1
        return True
    if ch.excluded(v):
        return True
    o = run_c02(kinds[v["su"]], kinds[v["body"]], kinds[v["td"]], acts, v["existing"])
    nontrivial = v["nact"] >= 1
    return ch.finish(not o["problems"], v, nontrivial)


# --- the same callable registered several times with equal arguments ---------------------------------------
def run_dup(nreg, sites, kind, form):
    """nreg registrations of one callable with equal arguments at the given sites (0 setUp, 1 body, 2 tearDown, 3 inside
    the 'mid' cleanup), plus a distinct cleanup 'mid' registered at the start of the body. form: 0 plain function with an
    argument, 1 bound method without arguments, 2 function with an equal keyword argument."""
    log = []

    class Gen(testtools.TestCase):
        def _reg(self, site):
            for j in range(nreg):
                if sites[j] == site:
                    if form == 0:
                        self.addCleanup(shared, "arg")
                    elif form == 1:
                        self.addCleanup(self.shared_method)
                    else:
                        self.addCleanup(shared, tag="loop")

        def shared_method(self):
            shared()

        def setUp(self):
            super().setUp()
            self._reg(0)

        def test_it(self):
            self.addCleanup(self._mid)
            self._reg(1)

        def tearDown(self):
            self._reg(2)
            super().tearDown()

        def _mid(self):
            log.append("mid")
            self._reg(3)

    def shared(*a, **kw):
        log.append("shared")
        P.behave(case, kind)

    case = Gen("test_it")
    names1, exc1, _ = L.run_once(case, P.FEXT)
    log1 = list(log)
    left = len(case._cleanups)
    del log[:]
    L.run_once(case, P.FEXT)
    # reference: registration order by stage, LIFO; registrations made inside 'mid' run right after it
    order = ["shared"] * sum(1 for j in range(nreg) if sites[j] == 0) + ["mid"] + \
            ["shared"] * sum(1 for j in range(nreg) if sites[j] in (1, 2))
    want = []
    for name in reversed(order):
        want.append(name)
        if name == "mid":
            want += ["shared"] * sum(1 for j in range(nreg) if sites[j] == 3)
    problems = []
    if log1 != want:
        problems.append("cleanup calls %r, expected %r (one call per registration, LIFO)" % (log1, want))
    if left:
        problems.append("cleanups left registered after run()")
    if list(log) != log1:
        problems.append("second run differs: %r vs %r" % (list(log), log1))
    return {"log": log1, "expected": want, "problems": problems}


def h_dup(nreg: int, s0: int, s1: int, s2: int, kind: int, form: int) -> bool:
    """
    pre: 1 <= nreg <= 3 and 0 <= s0 < 4 and 0 <= s1 < 4 and 0 <= s2 < 4 and 0 <= kind < 3 and 0 <= form < 3
    post: _
    """
    try:
        n = ch.sel("nreg", nreg, 4)
        if n < 1:
            return True
        raw = [s0, s1, s2]
        v = dict(nreg=n, kind=ch.sel("kind", kind, 3), form=ch.sel("form", form, 3))
        sites = [ch.sel("s%d" % j, raw[j], 4) for j in range(n)]
        v["sites"] = tuple(sites)
    except ch.Prune:
        return True
    o = run_dup(n, sites, K5[v["kind"]], v["form"])
    ch.LAST.update(o)
    return ch.finish(not o["problems"], v, nontrivial=n >= 2)


def _args_from(v):
    return (v.get("su", 0), v.get("body", 0), v.get("td", 0), v.get("nact", 0),
            v.get("s0", 0), v.get("a0", 0), v.get("s1", 0), v.get("a1", 0), v.get("s2", 0),
            v.get("a2", 0), v.get("existing", 1), v.get("mf", 2), v.get("tk", 0))


def _observe(su, body, td, nact, s0, a0, s1, a1, s2, a2, existing, mf, tk):
    kinds = K5 if tk == 0 else K7
    v = dict(nact=nact, s0=s0, a0=a0, s1=s1, a1=a1, s2=s2, a2=a2)
    acts = decode(v, kinds)
    if not valid(acts):
        return None
    o = run_c02(kinds[su], kinds[body], kinds[td], acts, existing)
    return (o["log"], o["names"], o["attr"])


def _describe(su, body, td, nact, s0, a0, s1, a1, s2, a2, existing, mf, tk):
    kinds = K5 if tk == 0 else K7
    v = dict(nact=nact, s0=s0, a0=a0, s1=s1, a1=a1, s2=s2, a2=a2)
    acts = decode(v, kinds)
    o = run_c02(kinds[su], kinds[body], kinds[td], acts, existing)
    o["program"] = {"setUp": P.KIND_NAMES[kinds[su]], "body": P.KIND_NAMES[kinds[body]],
                    "tearDown": P.KIND_NAMES[kinds[td]],
                    "actions": [(SITES[s], t, p if t != "cleanup" else P.KIND_NAMES[p]) for s, t, p in acts],
                    "attribute_exists": existing}
    return o


def _fid(seed):
    import random
    rng = random.Random(seed)
    out = [(0, 0, 0, 0, 0, 0, 0, 0, 0, 0, 1, 2, 0)]
    for _ in range(150):
        nact = rng.randrange(1, 4)
        su = rng.choice([0, 0, 0, 1, 4])
        out.append((su, rng.randrange(5) if su == 0 else 0, rng.randrange(5) if su == 0 else 0, nact,
                    rng.randrange(4), rng.randrange(11), rng.randrange(5), rng.randrange(11),
                    rng.randrange(5), rng.randrange(11), rng.randrange(5), 4, 0))
    return out


def _shards(tier):
    out = []
    if tier == "quick":
        # <=2 actions, 5-kind alphabet, fault budget 2
        for s0 in range(4):
            for a0 in range(11):
                out.append(({"tk": 0, "mf": 2, "nact": 2, "s0": s0, "a0": a0}, 300))
        out.append(({"tk": 0, "mf": 2, "nact": 1}, 300))
        out.append(({"tk": 0, "mf": 2, "nact": 0}, 300))
        # three actions without faults where the cleanup of action 0 registers action 1 while action 2 may be pending
        # as well (older or newer): position of a late registration in the LIFO order
        for s0 in range(4):
            out.append(({"tk": 0, "mf": 0, "nact": 3, "s0": s0, "a0": 0, "s1": 4}, 600))
    else:
        # (1) the quick space over the 7-behaviour alphabet (13 action types)
        for s0 in range(4):
            for a0 in range(13):
                out.append(({"tk": 1, "mf": 2, "nact": 2, "s0": s0, "a0": a0}, 3000))
        out.append(({"tk": 1, "mf": 3, "nact": 1}, 1800))
        out.append(({"tk": 1, "mf": 3, "nact": 0}, 900))
        # (2) three registered actions, the second registered by the first one's cleanup, with at most one fault
        for s0 in range(4):
            for a0 in range(5):
                out.append(({"tk": 0, "mf": 1, "nact": 3, "s0": s0, "a0": a0, "s1": 4}, 3000))
    return out


HARNESSES = [
    Harness(
        "order", h_order, _shards,
        bounds={"quick": "stages over {return, fail, error, skip, KeyboardInterrupt}; 0..2 registered actions, "
                         "each at one of 5 sites (setUp before/after upcall, body, tearDown, inside the cleanup of "
                         "action 0) and of 11 types (cleanup x 5 behaviours, patch of an existing / missing "
                         "attribute, fixture ok / setUp fails / cleanUp fails / nested); at most 2 faults per "
                         "program; plus fault-free programs with 3 actions in which a cleanup registers a further action while a third one is pending; attribute initially absent, present, present with value None, stored in a __slots__ object, or behind a read-write property; every program is run twice on the same instance",
                "thorough": "7-behaviour alphabet (+ expected failure, MultipleExceptions) with 0..2 actions of 13 types and fault budget 2 "
                            "(3 with <= 1 action); 3 actions (the first a cleanup of any behaviour, the second registered inside that cleanup) over the 5-behaviour alphabet with at most 1 fault"},
        rule="one program per path; non-trivial = at least one cleanup/patch/fixture registered",
        fidelity=_fid, observe=_observe, describe=_describe,
        twin_fix={"tk": 0, "mf": 2, "nact": 1},
        assumptions=["fixtures.Fixture (fixtures 4.3.2 from /venv) is the fixture implementation",
                     "cleanup bodies log the current value of the patched attribute, which makes the "
                     "position of each patch's undo in the LIFO order observable"]),
    Harness(
        "dup", h_dup, lambda tier: [({"form": f}, 300) for f in range(3)],
        bounds={"quick": "one callable registered 1..3 times with EQUAL arguments (plain function + argument, bound method, function + "
                         "keyword argument), each registration in setUp / body / tearDown / inside another cleanup, behaving {return, "
                         "fail, error}, next to one distinct cleanup: one call per registration at its LIFO position; run twice"},
        rule="non-trivial = at least 2 equal registrations",
        describe=lambda nreg, s0, s1, s2, kind, form: run_dup(nreg, [s0, s1, s2][:nreg], K5[kind], form)),
]
OUTSIDE = ["more than 3 registered actions; cleanups registered from cleanups other than action 0",
           "third-party fixture classes"]
