"""C15 - Spinner returns the function's own result within the timeout and restores the process."""
import signal

from twisted.internet import defer

from testtools.twistedsupport._spinner import (NoResultError, ReentryError, Spinner, StaleJunkError, TimeoutError)

from vf import ch
from vf.driver import Harness
from vf.vreactor import VReactor, WouldBlockForever

PROPERTY = "C15"
FKIND = ["return 7", "raise ValueError", "Deferred fires with 7", "Deferred fails with ValueError", "Deferred never fires"]
SIGS = ["SIGINT", "SIGTERM", "SIGCHLD"]
INF = 99


def _py_handler(signum, frame):
    pass


PRESET = [signal.SIG_DFL, signal.SIG_IGN, _py_handler]


def run_spin(fkind, d, timeout, stop_at, extra, selectable, preset, second):
    """stop_at: 0..3 or 4 = never; extra: 0 none, 1 a delayed call at +1, 2 a delayed call at +50;
    second: 0 no second run, 1 second run after clear_junk(), 2 second run without clearing."""
    reactor = VReactor()
    spinner = Spinner(reactor)
    orig_stop = reactor.stop
    saved = {}
    for name in SIGS:
        sig = getattr(signal, name)
        saved[sig] = signal.getsignal(sig)
        signal.signal(sig, PRESET[preset])
    before = {sig: signal.getsignal(sig) for sig in saved}
    fired = {"extra": False}
    extra_calls = []
    sel = object()
    problems = []
    try:
        def function():
            if extra:
                extra_calls.append(reactor.callLater(1 if extra == 1 else 50, lambda: fired.__setitem__("extra", True)))
            if selectable:
                reactor.addReader(sel)
            if fkind == 0:
                return 7
            if fkind == 1:
                raise ValueError("sync")
            dd = defer.Deferred()
            if fkind == 2:
                if d == 0:
                    dd.callback(7)
                else:
                    reactor.callLater(d, dd.callback, 7)
            elif fkind == 3:
                if d == 0:
                    dd.errback(ValueError("async"))
                else:
                    reactor.callLater(d, dd.errback, ValueError("async"))
            return dd

        if stop_at < 4:
            # models a signal handler / user code calling reactor.stop() at that instant
            reactor.interrupt_at(stop_at)
        outcome = None
        try:
            outcome = ("returned", spinner.run(timeout, function))
        except TimeoutError:
            outcome = ("TimeoutError",)
        except NoResultError:
            outcome = ("NoResultError",)
        except ValueError:
            outcome = ("ValueError",)
        except WouldBlockForever as e:
            outcome = ("would block forever", str(e))
        except Exception as e:
            outcome = ("raised", type(e).__name__)
        # --- reference: first of (result, timeout, stop) in virtual time; ties: either -------------
        r = 0 if fkind in (0, 1) else (d if fkind in (2, 3) else INF)
        s = stop_at if stop_at < 4 else INF
        res_out = ("returned", 7) if fkind in (0, 2) else ("ValueError",)
        first = min(r, timeout, s)
        allowed = set()
        # Within one virtual instant the timeout call (scheduled before the function ran) fires before anything the
        # function scheduled, and a stop request arrives after the delayed calls of that instant. Hence:
        # "TimeoutError if the Deferred has not fired when timeout elapses" (a tie is a timeout), otherwise the
        # function's own result unless the reactor was stopped strictly first.
        if r == 0:
            allowed.add(res_out)          # synchronous / already fired results precede every scheduled call
        elif timeout == first:
            allowed.add(("TimeoutError",))
        elif r == first:
            allowed.add(res_out)
        else:
            allowed.add(("NoResultError",))
        if outcome not in allowed:
            problems.append("run() gave %r, expected one of %r (result at %s, timeout at %s, stop at %s)" % (
                outcome, sorted(allowed), r, timeout, s))
        # --- post-conditions -------------------------------------------------------------------------
        if reactor.running:
            problems.append("reactor still running")
        if reactor.getDelayedCalls():
            problems.append("pending delayed calls left: %r" % (reactor.getDelayedCalls(),))
        if reactor.selectables:
            problems.append("selectables left registered")
        if reactor.stop != orig_stop:
            problems.append("reactor.stop not restored")
        after = {sig: signal.getsignal(sig) for sig in saved}
        if after != before:
            problems.append("signal handlers changed: %r" % (after,))
        junk = spinner.get_junk()
        for c in extra_calls:
            if not fired["extra"] and c not in junk:
                problems.append("left-over delayed call not reported as junk")
            if c.active():
                problems.append("left-over delayed call still active")
        if selectable and sel not in junk:
            problems.append("selectable not reported as junk")
        # --- second run on the same spinner ---------------------------------------------------------
        if second:
            had_junk = bool(junk)
            if second == 1:
                spinner.clear_junk()
            try:
                out2 = ("returned", spinner.run(5, lambda: 9))
            except StaleJunkError:
                out2 = ("StaleJunkError",)
            except Exception as e:
                out2 = ("raised", type(e).__name__)
            want2 = ("StaleJunkError",) if (had_junk and second == 2) else ("returned", 9)
            if out2 != want2:
                problems.append("second run gave %r, expected %r (first run gave %r)" % (out2, want2, outcome))
    finally:
        for sig, h in saved.items():
            signal.signal(sig, h)
    return {"function": FKIND[fkind], "fire_delay": d, "timeout": timeout, "stop_at": None if stop_at == 4 else stop_at,
            "outcome": outcome, "problems": problems}


def run_reentry():
    reactor = VReactor()
    spinner = Spinner(reactor)
    inner = []

    def function():
        for _ in range(2):                # every nested attempt must be refused, not only the first
            try:
                spinner.run(1, lambda: 1)
            except ReentryError:
                inner.append("ReentryError")
            except Exception as e:
                inner.append(type(e).__name__)
        return 3
    try:
        out = spinner.run(2, function)
        ok = inner == ["ReentryError", "ReentryError"] and out == 3 and not reactor.getDelayedCalls()
        # and the spinner is usable afterwards
        ok = ok and spinner.run(2, lambda: 4) == 4
    except Exception as e:
        ch.LAST["problems"] = ["nested attempts %r; outer run raised %r" % (inner, e)]
        return False
    ch.LAST["problems"] = [] if ok else ["nested attempts %r, outer result %r" % (inner, out)]
    return ok


def h_spin(fkind: int, d: int, timeout: int, stop_at: int, extra: int, selectable: bool, preset: int,
           second: int) -> bool:
    """
    pre: 0 <= fkind < 5 and 0 <= d <= 3 and 1 <= timeout <= 3 and 0 <= stop_at <= 4 and 0 <= extra < 3
    pre: 0 <= preset < 3 and 0 <= second < 3
    post: _
    """
    try:
        v = dict(fkind=ch.sel("fkind", fkind, 5))
        v["d"] = ch.sel("d", d, 4) if v["fkind"] in (2, 3) else 0
        v["timeout"] = ch.conc(timeout - 1, 3) + 1 if "timeout" not in ch.FIX else ch.FIX["timeout"]
        v["stop_at"] = ch.sel("stop_at", stop_at, 5)
        v["extra"] = ch.sel("extra", extra, 3)
        v["selectable"] = ch.cbool(selectable)
        v["preset"] = ch.sel("preset", preset, 3)
        v["second"] = ch.sel("second", second, 3)
    except ch.Prune:
        return True
    if ch.excluded(v):
        return True
    o = run_spin(v["fkind"], v["d"], v["timeout"], v["stop_at"], v["extra"], v["selectable"], v["preset"], v["second"])
    ch.LAST.update(o)
    return ch.finish(not o["problems"], v, nontrivial=True)


def h_reentry(x: int) -> bool:
    """
    pre: 0 <= x < 2
    post: _
    """
    k = ch.sel("x", x, 2)
    return ch.finish(run_reentry(), dict(x=k), nontrivial=True)


HARNESSES = [
    Harness("spin", h_spin, lambda tier: [({"fkind": f, "timeout": t}, 900) for f in range(5) for t in (1, 2, 3)],
            bounds={"quick": "function in {returns, raises, Deferred fires / fails after d in 0..3, never fires} x timeout 1..3 x stop request "
                             "at instant 0..3 or never (all orders of fire/timeout/stop; ties: the timeout wins over a result due at the same instant, a result wins over a stop request arriving at the same instant) x extra delayed call {none, fires "
                             "during the run, left over} x selectable registered or not x pre-installed SIGINT/SIGTERM/SIGCHLD handlers "
                             "{default, ignore, Python function} x second run() {none, after clear_junk(), without clearing}; virtual-time reactor"},
            rule="every path non-trivial",
            fidelity=lambda seed: [(f, d, t, s, e, False, 0, 0) for f in range(5) for d in (0, 2) for t in (1, 2) for s in (0, 1, 4) for e in (0, 2)],
            observe=lambda *a: (lambda o: (o["outcome"], o["problems"]))(run_spin(*a)), describe=run_spin,
            assumptions=["reactor = VReactor (twisted.internet.task.Clock + run/crash/stop/callWhenRunning/removeAll/iterate; run() installs SIGINT/"
                         "SIGTERM/SIGCHLD handlers the way the real reactor does; "
                         "getDelayedCalls returns a copy as ReactorBase does)",
                         "a stop request is a delayed call that calls reactor.stop() (what Twisted's signal handlers do)"]),
    Harness("reentry", h_reentry, lambda tier: [({}, 300)],
            bounds={"quick": "re-entrant Spinner.run from inside the function raises ReentryError; the spinner stays usable"},
            rule="every path non-trivial"),
]
OUTSIDE = ["the real (epoll/select) reactor and wall-clock timing; thread-pool shutdown (the virtual reactor does not provide IReactorThreads)",
           "delays and timeouts beyond 0..3 virtual seconds (their relative order is what matters)"]
