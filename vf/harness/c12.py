"""C12 - ThreadsafeForwardingResult: per-test atomicity under every interleaving."""
from testtools import PlaceHolder
from testtools.testresult import doubles
from testtools.testresult.real import ThreadsafeForwardingResult

from vf import ch
from vf.driver import Harness
from vf.sched import Deadlock, FakeSemaphore, Sched

PROPERTY = "C12"
OUTCOMES = ["addSuccess", "addFailure", "addSkip", "addError"]


class TargetFault(Exception):
    pass


class SharedTarget(doubles.ExtendedTestResult):
    """The shared target: every call is a scheduling point and is logged with the calling thread."""

    def __init__(self, sched, fault_at):
        super().__init__()
        self._sched = sched
        self._fault_at = fault_at
        self._calls = 0
        self.tlog = []

    def _enter(self, name, *payload):
        self._sched.yield_point("target." + name)
        k = self._calls
        self._calls += 1
        self.tlog.append((self._sched.me(), name) + payload)
        if k == self._fault_at:
            raise TargetFault("injected at call %d (%s)" % (k, name))

    def startTestRun(self):
        self._enter("startTestRun")
        super().startTestRun()

    def stopTestRun(self):
        self._enter("stopTestRun")
        super().stopTestRun()

    def startTest(self, test):
        self._enter("startTest", test.id())
        super().startTest(test)

    def stopTest(self, test):
        self._enter("stopTest", test.id())
        super().stopTest(test)

    def time(self, t):
        self._enter("time", t)
        super().time(t)

    def tags(self, new, gone):
        self._enter("tags", tuple(sorted(new)), tuple(sorted(gone)))
        super().tags(new, gone)

    def stop(self):
        self._enter("stop")
        super().stop()

    def done(self):
        self._enter("done")

    def addSuccess(self, test, details=None):
        self._enter("addSuccess", test.id())
        super().addSuccess(test, details=details)

    def addFailure(self, test, err=None, details=None):
        self._enter("addFailure", test.id())
        super().addFailure(test, err, details=details)

    def addError(self, test, err=None, details=None):
        self._enter("addError", test.id())
        super().addError(test, err, details=details)

    def addSkip(self, test, reason=None, details=None):
        self._enter("addSkip", test.id())
        super().addSkip(test, reason, details=details)


def run_schedule(nthreads, ntests, outcomes, use_tags, ctl_calls, fault_at, schedule, tie=False):
    """schedule: list of ints consumed at choice points (then the lowest-numbered ready thread runs)."""
    pos = [0]

    def chooser(n):
        if pos[0] < len(schedule):
            v = schedule[pos[0]]
            pos[0] += 1
            return ch.conc(v, n)
        return 0

    sched = Sched(chooser)
    target = SharedTarget(sched, fault_at)
    sem = FakeSemaphore(sched, 1)
    forwarders = [ThreadsafeForwardingResult(target, sem) for _ in range(nthreads)]
    errors = {}
    reported = {}

    def worker(w):
        def body():
            f = forwarders[w]
            if ctl_calls & 1:
                try:
                    f.startTestRun()
                except TargetFault:
                    errors.setdefault(w, []).append("startTestRun")
            if use_tags & 2:
                f.tags({"run-w%d" % w}, set())      # run-level tag of this forwarder (outside any test)
            for n in range(ntests):
                test = PlaceHolder("w%d.t%d" % (w, n))
                try:
                    if not (tie and n >= 1):
                        f.time(("start", w, n))      # tie: no clock reading in between, the test starts at the previous test's end time
                    f.startTest(test)
                    if use_tags & 1:
                        f.tags({"tag-w%d-t%d" % (w, n)}, set())
                    f.time(("end", w, n))
                    oc = OUTCOMES[outcomes[(w * ntests + n) % len(outcomes)]]
                    if oc == "addSkip":
                        f.addSkip(test, "why")
                    elif oc == "addSuccess":
                        f.addSuccess(test)
                    else:
                        getattr(f, oc)(test, details={})
                    reported.setdefault(w, []).append(test.id())
                except TargetFault:
                    errors.setdefault(w, []).append(test.id())
                finally:
                    f.stopTest(test)          # as TestCase.run does: stopTest in a finally
            if ctl_calls & 2:
                try:
                    f.stop()
                    f.done()
                    f.stopTestRun()
                except TargetFault:
                    errors.setdefault(w, []).append("stop/done/stopTestRun")
        return body

    for w in range(nthreads):
        sched.spawn(worker(w))
    problems = []
    try:
        sched.run()
    except Deadlock as e:
        problems.append("deadlock: %s; semaphore count %d; target log %r" % (e, sem.count, target.tlog[-6:]))
    finally:
        sched.shutdown()
    for tid, e in sched.errors.items():
        problems.append("worker %d died with %r" % (tid, e))
    if sem.count != 1 and not problems:
        problems.append("semaphore count is %d after all threads finished" % sem.count)
    # ---- block structure of the target log ------------------------------------------------------------
    log = target.tlog
    faulted_tests = {t for errs in errors.values() for t in errs}
    for w in range(nthreads):
        last_b = -1
        for n in range(ntests):
            tid_test = "w%d.t%d" % (w, n)
            if tid_test in faulted_tests:
                continue          # the injected fault hit this test: only release / no-deadlock are demanded
            starts = [i for i, e in enumerate(log) if e[1] == "startTest" and e[2] == tid_test]
            stops = [i for i, e in enumerate(log) if e[1] == "stopTest" and e[2] == tid_test]
            outs = [i for i, e in enumerate(log) if e[1] in OUTCOMES and e[2] == tid_test]
            if len(starts) != 1 or len(stops) != 1 or len(outs) != 1:
                problems.append("%s: startTest x%d, outcome x%d, stopTest x%d" % (tid_test, len(starts), len(outs), len(stops)))
                continue
            a, b = starts[0], stops[0]
            block = log[max(a - 1, 0):b + 1]
            if a == 0 or any(e[0] != w for e in block):
                problems.append("%s: events of another thread inside its block: %r" % (tid_test, block))
                continue
            want_start = ("end", w, n - 1) if (tie and n >= 1) else ("start", w, n)
            if block[0][1] != "time" or block[0][2] != want_start:
                problems.append("%s: block does not begin with its own start time: %r" % (tid_test, block[0]))
            if len(block) < 5 or block[2][1] != "time" or block[2][2] != ("end", w, n):
                problems.append("%s: end time missing after startTest: %r" % (tid_test, block))
                continue
            if outs[0] != b - 1:
                problems.append("%s: outcome is not immediately before stopTest: %r" % (tid_test, block))
            mids = block[3:-2]
            if any(e[1] != "tags" for e in mids):
                problems.append("%s: unexpected events between end time and outcome: %r" % (tid_test, block))
            want_tags = set()
            if use_tags & 1:
                want_tags.add("tag-w%d-t%d" % (w, n))
            if use_tags & 2:
                want_tags.add("run-w%d" % w)
            got_tags = set()
            for e in mids:
                got_tags |= set(e[2])
                got_tags -= set(e[3])
            if got_tags != want_tags:
                problems.append("%s: block carries tags %r instead of exactly its own %r" % (tid_test, sorted(got_tags), sorted(want_tags)))
            elif mids and not want_tags:
                problems.append("%s: block carries tags although the test has none: %r" % (tid_test, mids))
            if a < last_b:
                problems.append("%s: delivered out of its thread's order" % tid_test)
            last_b = b
    return {"log": [(e[0], e[1]) + tuple(e[2:3]) for e in log], "schedule_trace": sched.trace, "choices": sched.choices,
            "errors": errors, "problems": problems}


def h_sched(nthreads: int, ntests: int, o0: int, o1: int, use_tags: int, ctl_calls: int, fault_at: int,
            s0: int, s1: int, s2: int, s3: int, s4: int, s5: int, s6: int, s7: int, s8: int, s9: int,
            s10: int, s11: int, s12: int, s13: int, s14: int, s15: int, depth: int, tie: bool = False) -> bool:
    """
    pre: 2 <= nthreads <= 3 and 1 <= ntests <= 3 and 0 <= o0 < 4 and 0 <= o1 < 4 and 0 <= ctl_calls < 4
    pre: -1 <= fault_at < 24 and 0 <= depth <= 16 and 0 <= use_tags < 4
    pre: 0 <= s0 < 3 and 0 <= s1 < 3 and 0 <= s2 < 3 and 0 <= s3 < 3 and 0 <= s4 < 3 and 0 <= s5 < 3 and 0 <= s6 < 3 and 0 <= s7 < 3
    pre: 0 <= s8 < 3 and 0 <= s9 < 3 and 0 <= s10 < 3 and 0 <= s11 < 3 and 0 <= s12 < 3 and 0 <= s13 < 3 and 0 <= s14 < 3 and 0 <= s15 < 3
    post: _
    """
    try:
        nt = ch.sel("nthreads", nthreads, 4)
        ne = ch.sel("ntests", ntests, 4)
        v = dict(nthreads=nt, ntests=ne, o0=ch.sel("o0", o0, 4), o1=ch.sel("o1", o1, 4), use_tags=ch.sel("use_tags", use_tags, 4),
                 ctl_calls=ch.sel("ctl_calls", ctl_calls, 4))
        v["fault_at"] = ch.conc(fault_at + 1, 25) - 1 if "fault_at" not in ch.FIX else ch.FIX["fault_at"]
        dp = ch.sel("depth", depth, 17)
        if v["use_tags"] not in ch.FIX.get("tagset", (0, 1, 2, 3)):
            raise ch.Prune()
        v["tie"] = ch.cbool(tie) if ne >= 2 else False
    except ch.Prune:
        return True
    sched_vars = [s0, s1, s2, s3, s4, s5, s6, s7, s8, s9, s10, s11, s12, s13, s14, s15][:dp]
    try:
        o = run_schedule(nt, ne, [v["o0"], v["o1"]], v["use_tags"], v["ctl_calls"], v["fault_at"], sched_vars, v["tie"])
    except ch.Prune:
        return True
    v["trace"] = tuple(o["schedule_trace"])
    ch.LAST.update(o)
    return ch.finish(not o["problems"], v, nontrivial=o["choices"] >= 1)


def _shards(tier):
    out = []
    base = {"nthreads": 2, "o0": 1, "o1": 2}
    if tier == "quick":
        for fa in range(-1, 12):
            out.append((dict(base, ntests=1, depth=10, fault_at=fa, ctl_calls=0, tagset=(0, 3)), 1800))
        out.append((dict(base, ntests=1, depth=6, fault_at=-1, ctl_calls=0, tagset=(1, 2)), 1800))
        for fa in (-1, 0, 6, 13, 16):
            out.append((dict(base, ntests=1, depth=7, fault_at=fa, ctl_calls=3, tagset=(0, 3)), 1800))
        for fa in (-1, 5, 14):
            out.append((dict(base, ntests=2, depth=7, fault_at=fa, ctl_calls=0, tagset=(1, 3) if fa >= 0 else (0, 1, 2, 3)), 1800))
    else:
        for o0, o1 in ((1, 2), (0, 3)):
            b2 = {"nthreads": 2, "o0": o0, "o1": o1}
            for fa in range(-1, 12):
                out.append((dict(b2, ntests=1, depth=14, fault_at=fa, ctl_calls=0, tagset=(0, 3) if fa >= 0 else (0, 1, 2, 3)), 3000))
            for fa in range(-1, 20):
                out.append((dict(b2, ntests=1, depth=10, fault_at=fa, ctl_calls=3, tagset=(0, 3)), 3000))
            for fa in range(-1, 24):
                out.append((dict(b2, ntests=2, depth=9, fault_at=fa, ctl_calls=0, tagset=(1, 3) if fa >= 0 else (0, 1, 2, 3)), 3000))
        for fa in range(-1, 18):
            out.append(({"nthreads": 3, "o0": 1, "o1": 2, "ntests": 1, "depth": 7, "fault_at": fa, "ctl_calls": 0, "tagset": (3,) if fa >= 0 else (0, 3)}, 3000))
        out.append((dict(base, ntests=3, depth=8, fault_at=-1, ctl_calls=0, tagset=(0, 3)), 3000))
    return out


def _describe(*a):
    nthreads, ntests, o0, o1, use_tags, ctl_calls, fault_at = a[:7]
    depth = a[23]
    tie = bool(a[24]) if len(a) > 24 else False
    return run_schedule(nthreads, ntests, [o0, o1], use_tags, ctl_calls, fault_at, list(a[7:23])[:depth], tie and ntests >= 2)


HARNESSES = [
    Harness("sched", h_sched, _shards,
            bounds={"quick": "2 forwarder threads; the schedule is symbolic: at each of the first k points where more than one thread is "
                             "runnable the solver chooses which runs (afterwards the lowest-numbered runnable thread); scheduling points = "
                             "semaphore acquire/release and every call on the shared target. (A) 1 test per thread (failure / skip; tags in {none, "
                             "test-local, run-level, both}: none and both in every shard, the other two in the fault-free shards; explicit times), k = 10, the j-th call on the target raises for every j in 0..11 and no "
                             "fault; (B) additionally startTestRun before and stop/done/stopTestRun after, k = 7, faults at {none, 0, 6, "
                             "13, 16}; (C) 2 tests per thread, k = 7, faults at {none, 5, 14}, the second test starting "
                             "either at its own clock reading or (tie) at the first test's end time",
                    "thorough": "two outcome pairs; (A) k = 14; (B) k = 10 with every fault position; (C) k = 9 with every fault position; "
                                "3 threads x 1 test with k = 7 and every fault position; 2 threads x 3 tests with k = 8; all four tag modes in "
                                "the fault-free shards, two of them in the others"},
            rule="one schedule per path; non-trivial = at least one point with more than one runnable thread",
            twin_fix={"nthreads": 2, "ntests": 1, "depth": 4, "fault_at": -1, "ctl_calls": 0, "o0": 1, "o1": 2},
            describe=_describe,
            assumptions=["threads are real but run one at a time under a deterministic controller; pre-emption happens only at "
                         "semaphore operations and at calls on the shared target (sufficient for forwarders that share nothing "
                         "but the target and the semaphore)",
                         "the semaphore is a scheduler-aware fake with threading.Semaphore's acquire/release contract"]),
]
OUTSIDE = ["more than 3 threads / 3 tests per thread; schedule choices beyond the stated depth",
           "pre-emption inside a single call on the target or between two bytecodes of the forwarder"]
