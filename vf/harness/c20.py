"""C20 - Deferred matchers classify fired/failed/unfired without firing anything;
SynchronousDeferredRunTest treats an already-fired Deferred like a direct return/raise."""
import gc

import testtools
from twisted.internet import defer
from twisted.python.failure import Failure

from testtools.matchers import AfterPreprocessing, Always, Equals, Never
from testtools.twistedsupport import (SynchronousDeferredRunTest, failed, has_no_result, succeeded)
from testtools.twistedsupport._deferred import DeferredNotFired, extract_result
from testtools.twistedsupport._spinner import trap_unhandled_errors

from vf import ch, lifecycle as L, programs as P
from vf.ch import V
from vf.driver import Harness

PROPERTY = "C20"
STATES = ["unfired", "fired(int)", "fired(None)", "fired(nested tuple)", "failed(ValueError)", "failed(KeyError)",
          "failed(RuntimeError)", "fired, but waiting on an unfired Deferred returned by a callback",
          "failed(SystemExit)", "failed(KeyboardInterrupt)"]


class UserBase(BaseException):
    """A user exception class deriving from BaseException only."""


EXC = {4: ValueError, 5: KeyError, 6: RuntimeError, 8: SystemExit, 9: KeyboardInterrupt}
HANDLED_EXC = [ValueError, KeyError, RuntimeError, SystemExit, KeyboardInterrupt, UserBase]
PRE = ["none", "addCallback(wrap)", "addBoth(passthrough)", "addErrback(recover)"]
INNER = ["Always", "Never", "Equals(q)"]


def make_deferred(state, pre, x):
    """Returns (deferred, effective kind 'none'|'value'|'failure', effective value/exception argument)."""
    d = defer.Deferred()
    if pre == 1:
        d.addCallback(lambda v: (v, "cb"))
    elif pre == 2:
        d.addBoth(lambda v: v)
    elif pre == 3:
        d.addErrback(lambda f: "recovered")
    if state == 0:
        return d, "none", None
    if state == 7:
        d.addCallback(lambda v: defer.Deferred())       # the chain is paused on a Deferred that has not fired
        d.callback(V(x))
        return d, "none", None
    if state in (1, 2, 3):
        val = {1: V(x), 2: None, 3: (V(x), (V(x), None))}[state]
        d.callback(val)
        if pre == 1:
            return d, "value", (val, "cb")
        return d, "value", val
    d.errback(Failure(EXC[state](V(x))))
    if pre == 3:
        return d, "value", "recovered"
    return d, "failure", V(x)


def inner_matcher(kind, on_failure, q):
    if kind == 0:
        return Always(), (lambda val: True)
    if kind == 1:
        return Never(), (lambda val: False)
    if on_failure:
        return AfterPreprocessing(lambda f: f.value.args[0], Equals(V(q)), annotate=False), (lambda arg: arg == V(q))
    return Equals(V(q)), (lambda val: isinstance(val, V) and val == V(q))


def run_classify(state, pre, inner, x, q):
    try:
        return _run_classify(state, pre, inner, x, q)
    except Exception as e:
        return ["a matcher / extract_result raised %s: %s" % (type(e).__name__, e)]


def _run_classify(state, pre, inner, x, q):
    problems = []
    # exclusivity on three fresh Deferreds in the same state
    res = []
    for mk in (has_no_result, lambda: succeeded(Always()), lambda: failed(Always())):
        d, kind, val = make_deferred(state, pre, x)
        called_before = d.called
        res.append(mk().match(d) is None)
        if d.called != called_before:
            problems.append("matching changed whether the Deferred has fired")
        d.addErrback(lambda f: None)
    want = [kind == "none", kind == "value", kind == "failure"]
    if res != want:
        problems.append("has_no_result/succeeded/failed matched %r, expected %r for %s" % (res, want, kind))
    # inner matcher
    d, kind, val = make_deferred(state, pre, x)
    m, den = inner_matcher(inner, False, q)
    got = succeeded(m).match(d) is None
    exp = ch.cbool(kind == "value" and den(val))
    if got != exp:
        problems.append("succeeded(%s) gave %s, expected %s" % (INNER[inner], got, exp))
    d.addErrback(lambda f: None)
    d, kind, val = make_deferred(state, pre, x)
    m, den = inner_matcher(inner, True, q)
    got = failed(m).match(d) is None
    exp = ch.cbool(kind == "failure" and den(val))
    if got != exp:
        problems.append("failed(%s) gave %s, expected %s" % (INNER[inner], got, exp))
    d.addErrback(lambda f: None)
    # extract_result
    d, kind, val = make_deferred(state, pre, x)
    try:
        out = ("value", extract_result(d))
    except DeferredNotFired:
        out = ("notfired", None)
    except (Exception, SystemExit, KeyboardInterrupt) as e:
        out = ("raised", type(e))
    if kind == "none" and out[0] != "notfired":
        problems.append("extract_result on an unfired Deferred: %r" % (out,))
    if kind == "value" and not (out[0] == "value" and out[1] is val or out[1] == val):
        problems.append("extract_result returned %r" % (out,))
    if kind == "failure" and out != ("raised", EXC[state]):
        problems.append("extract_result on a failure: %r" % (out,))
    return problems


def run_preserve(state, pre, which, order, x, w, fail_later=False):
    try:
        return _run_preserve(state, pre, which, order, x, w, fail_later)
    except Exception as e:
        return ["a matcher raised %s: %s" % (type(e).__name__, e)]


def _run_preserve(state, pre, which, order, x, w, fail_later=False):
    """Results stay intact for callbacks added after matching; order of match / fire / add-callback."""
    problems = []
    matcher = [has_no_result(), succeeded(Always()), failed(Always())][which]
    seen = []
    if state == 0 and fail_later:
        # matched while unfired, later fired with a FAILURE: the failure must reach an errback added afterwards
        d = defer.Deferred()
        matcher.match(d)
        if order == 2:
            matcher.match(d)
        if order == 1:
            d.addErrback(seen.append)
            d.errback(Failure(ValueError(V(w))))
        else:
            d.errback(Failure(ValueError(V(w))))
            d.addErrback(seen.append)
        if len(seen) != 1 or not isinstance(seen[0], Failure) or not (seen[0].value.args[0] == V(w)):
            problems.append("a failure fired after matching did not reach the later errback intact: %r" % (seen,))
    elif state == 0:
        d = defer.Deferred()
        if order == 0:          # match, fire, add callback
            matcher.match(d)
            d.callback(V(w))
            d.addCallback(seen.append)
        elif order == 1:        # match, add callback, fire
            matcher.match(d)
            d.addCallback(seen.append)
            d.callback(V(w))
        else:                   # add callback (pass-through), match, fire
            d.addCallback(lambda v: v)
            matcher.match(d)
            d.callback(V(w))
            d.addCallback(seen.append)
        if len(seen) != 1 or not (seen[0] == V(w)):
            problems.append("value fired after matching was not delivered intact: %r" % (seen,))
    else:
        d, kind, val = make_deferred(state, pre, x)
        matcher.match(d)
        if order == 2:
            matcher.match(d)    # matching twice
        if kind == "value":
            d.addCallback(seen.append)
            if len(seen) != 1 or seen[0] is not val and seen[0] != val:
                problems.append("successful result not intact after matching: %r" % (seen,))
        else:
            d.addErrback(lambda f: None)
    return problems


def run_handled(state, which, x):
    """A failure inspected by succeeded()/failed() is marked handled: nothing is logged at GC."""
    def scenario():
        d = defer.Deferred()
        d.errback(Failure(HANDLED_EXC[state - 4](x)))
        [succeeded(Always()), failed(Always()), failed(Never())][which].match(d)
        del d
        gc.collect()
    _res, errors = trap_unhandled_errors(scenario)
    return [] if not errors else ["%d unhandled-failure records left after matching" % len(errors)]


# --- SynchronousDeferredRunTest -----------------------------------------------------------------
def make_sync_case(stage, kind, deferred_form, log):
    def maybe(case):
        if not deferred_form:
            P.behave(case, kind)
            return None
        try:
            P.behave(case, kind)
        except Exception:
            return defer.fail(Failure())
        return defer.succeed(None)

    class Gen(testtools.TestCase):
        run_tests_with = SynchronousDeferredRunTest if deferred_form else testtools.RunTest

        def setUp(self):
            super().setUp()
            log.append("setUp")
            self.addCleanup(self._cl)
            if stage == 0:
                return maybe(self)

        def _cl(self):
            log.append("cleanup")
            if stage == 3:
                return maybe(self)

        def test_it(self):
            log.append("body")
            if stage == 1:
                return maybe(self)

        def tearDown(self):
            log.append("tearDown")
            super().tearDown()
            if stage == 2:
                return maybe(self)
    return Gen("test_it")


def run_sync(stage, kind, flav):
    obs = []
    for form in (False, True):
        log = []
        case = make_sync_case(stage, kind, form, log)
        names, exc, _ = L.run_once(case, flav)
        names = [n for n in names if n != "file"]      # the traceback text (hence its chunking) may differ
        obs.append((names, type(exc).__name__ if exc else None, log))
    problems = []
    if obs[0] != obs[1]:
        problems.append("direct %r vs already-fired Deferred %r" % (obs[0], obs[1]))
    return {"direct": obs[0], "deferred": obs[1], "problems": problems}


# --- harnesses ---------------------------------------------------------------------------------
def h_classify(state: int, pre: int, inner: int, x: int, q: int) -> bool:
    """
    pre: 0 <= state < 10 and 0 <= pre < 4 and 0 <= inner < 3
    post: _
    """
    v = dict(state=ch.sel("state", state, 10), pre=ch.sel("pre", pre, 4), inner=ch.sel("inner", inner, 3))
    problems = run_classify(v["state"], v["pre"], v["inner"], x, q)
    ch.LAST["problems"] = problems
    return ch.finish(not problems, v, nontrivial=True, sym=("x", "q"))


def h_preserve(state: int, pre: int, which: int, order: int, x: int, w: int, fail_later: bool) -> bool:
    """
    pre: 0 <= state < 10 and 0 <= pre < 4 and 0 <= which < 3 and 0 <= order < 3
    post: _
    """
    v = dict(state=ch.sel("state", state, 10), pre=ch.sel("pre", pre, 4), which=ch.sel("which", which, 3),
             order=ch.sel("order", order, 3))
    if v["state"] == 7:
        return True
    v["fail_later"] = ch.cbool(fail_later) if v["state"] == 0 else False
    problems = run_preserve(v["state"], v["pre"], v["which"], v["order"], x, w, v["fail_later"])
    ch.LAST["problems"] = problems
    return ch.finish(not problems, v, nontrivial=True, sym=("x", "w"))


def h_handled(state: int, which: int) -> bool:
    """
    pre: 4 <= state < 10 and 0 <= which < 3
    post: _
    """
    v = dict(state=ch.conc(state - 4, 6) + 4, which=ch.sel("which", which, 3))
    problems = run_handled(v["state"], v["which"], 5)
    ch.LAST["problems"] = problems
    return ch.finish(not problems, v, nontrivial=True)


SYNC_KINDS = [P.RET, P.FAIL, P.ERROR, P.SKIP, P.XFAIL, P.UXS]


def h_sync(stage: int, kind: int, flav: int) -> bool:
    """
    pre: 0 <= stage < 4 and 0 <= kind < 6 and 0 <= flav < 6
    post: _
    """
    v = dict(stage=ch.sel("stage", stage, 4), kind=ch.sel("kind", kind, 6), flav=ch.sel("flav", flav, 6))
    o = run_sync(v["stage"], SYNC_KINDS[v["kind"]], v["flav"])
    ch.LAST.update(o)
    return ch.finish(not o["problems"], v, nontrivial=v["kind"] != 0)


HARNESSES = [
    Harness("classify", h_classify, lambda tier: [({"state": s}, 600) for s in range(10)],
            bounds={"quick": "Deferred state {unfired, fired with a symbolic int / None / nested tuple, failed with one of 5 exception "
                             "classes (incl. SystemExit, KeyboardInterrupt) carrying a symbolic int, fired but paused on an unfired Deferred returned by a callback} x pre-attached callback {none, wrapping callback, pass-through addBoth, "
                             "recovering errback} x inner matcher {Always, Never, Equals(symbolic q) / AfterPreprocessing on the failure}: "
                             "mutual exclusivity on three fresh Deferreds, succeeded(m)/failed(m), extract_result, called flag unchanged"},
            rule="every path non-trivial", sym=("x", "q")),
    Harness("preserve", h_preserve, lambda tier: [({"state": s}, 600) for s in (0, 1, 2, 3, 4, 5, 6, 8, 9)],
            bounds={"quick": "each matcher applied (once or twice) in every order of match / fire / add-callback on unfired Deferreds "
                             "fired later with a symbolic value or with a failure, and on fired ones: callbacks/errbacks added afterwards receive the original result"},
            rule="every path non-trivial", sym=("x", "w")),
    Harness("handled", h_handled, lambda tier: [({}, 300)],
            bounds={"quick": "failed Deferred (6 exception classes incl. SystemExit, KeyboardInterrupt and a user BaseException subclass) inspected by succeeded(Always()), failed(Always()), failed(Never()), "
                             "dropped and garbage-collected inside trap_unhandled_errors: no unhandled-failure record remains"},
            rule="every path non-trivial"),
    Harness("sync", h_sync, lambda tier: [({"flav": f}, 600) for f in range(6)],
            bounds={"quick": "a stage (setUp, body, tearDown, cleanup) x behaviour {return, fail, error, skip, expected failure, unexpected "
                             "success} x 6 result flavours: the test run under SynchronousDeferredRunTest with the stage returning an "
                             "already-fired Deferred gives the same event log, execution log and run() result as the direct program"},
            rule="non-trivial = the stage raises", describe=lambda s, k, f: run_sync(s, SYNC_KINDS[k], f),
            fidelity=lambda seed: [(s, k, f) for s in range(4) for k in range(6) for f in (2, 4)],
            observe=lambda s, k, f: run_sync(s, SYNC_KINDS[k], f)),
]
OUTSIDE = ["Deferreds paused with pause() (a callback returning an unfired Deferred is covered)",
           "has_no_result() applied to a failed Deferred does not mark the failure handled (not demanded by the statement)"]
