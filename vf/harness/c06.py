"""C06 - matcher verdicts obey their declared semantics compositionally."""
import itertools

from testtools import matchers as M

from vf import ch
from vf.ch import V
from vf.driver import Harness

PROPERTY = "C06"

# ---------------------------------------------------------------------------------------------
# int-domain matcher expressions: (matcher object, denotation x -> bool, description)
NLEAF = 10
UN = 3      # Not, Annotate, AfterPreprocessing(+1)
BIN = 3     # MatchesAll, MatchesAll(first_only), MatchesAny


def _succ(v):
    return v + 1


FULL = (tuple(range(10)), (0, 1, 2), (0, 1, 2))
REDUCED = ((0, 2, 5, 1), (0, 2), (0, 2))      # Equals, LessThan, Never, NotEquals | Not, AfterPre | All, Any
SETWISE = ((0, 1, 2, 4), (), ())               # Equals, NotEquals, LessThan, Always


class Builder:
    def __init__(self, ops, params, prefix="o", alphabet=FULL):
        self.ops, self.params, self.prefix = ops, params, prefix
        self.leaves, self.uns, self.bins = alphabet
        self.i = 0
        self.pi = 0
        self.chosen = []

    def param(self):
        p = self.params[self.pi % len(self.params)]
        name = "p%d" % (self.pi % len(self.params))
        self.pi += 1
        return p, name

    def build(self, depth):
        k = self.i
        self.i += 1
        nl, nu, nb = len(self.leaves), len(self.uns), len(self.bins)
        n = nl if depth == 0 else nl + nu + nb
        op = ch.sel("%s%d" % (self.prefix, k), self.ops[k], n)
        self.chosen.append(op)
        if op < nl:
            return self.leaf(self.leaves[op])
        op -= nl
        if op < nu:
            op = self.uns[op]
            m, d, s = self.build(depth - 1)
            if op == 0:
                return M.Not(m), (lambda x: not d(x)), "Not(%s)" % s
            if op == 1:
                return M.Annotate("note", m), d, "Annotate(%s)" % s
            return M.AfterPreprocessing(_succ, m), (lambda x: d(x + 1)), "AfterPre(+1, %s)" % s
        op = self.bins[op - nu]
        m1, d1, s1 = self.build(depth - 1)
        m2, d2, s2 = self.build(depth - 1)
        if op == 0:
            return M.MatchesAll(m1, m2), (lambda x: d1(x) and d2(x)), "All(%s, %s)" % (s1, s2)
        if op == 1:
            return (M.MatchesAll(m1, m2, first_only=True), (lambda x: d1(x) and d2(x)),
                    "AllFirst(%s, %s)" % (s1, s2))
        return M.MatchesAny(m1, m2), (lambda x: d1(x) or d2(x)), "Any(%s, %s)" % (s1, s2)

    def leaf(self, op):
        if op == 0:
            p, n = self.param()
            return M.Equals(p), (lambda x: x == p), "Equals(%s)" % n
        if op == 1:
            p, n = self.param()
            return M.NotEquals(p), (lambda x: x != p), "NotEquals(%s)" % n
        if op == 2:
            p, n = self.param()
            return M.LessThan(p), (lambda x: x < p), "LessThan(%s)" % n
        if op == 3:
            p, n = self.param()
            return M.GreaterThan(p), (lambda x: x > p), "GreaterThan(%s)" % n
        if op == 4:
            return M.Always(), (lambda x: True), "Always"
        if op == 5:
            return M.Never(), (lambda x: False), "Never"
        if op == 6:
            return M.IsInstance(V), (lambda x: isinstance(x, V)), "IsInstance(V)"
        if op == 7:
            return M.Is(None), (lambda x: x is None), "Is(None)"
        if op == 8:
            return M.MatchesAny(), (lambda x: False), "MatchesAny()"       # empty disjunction
        return M.MatchesAll(), (lambda x: True), "MatchesAll()"            # empty conjunction


def snapshot(obj, depth=0):
    """Structural snapshot of a matcher / value tree (identity of leaves, structure of containers)."""
    if depth > 8:
        return "..."
    if isinstance(obj, (list, tuple)):
        return (type(obj).__name__, tuple(snapshot(o, depth + 1) for o in obj))
    if isinstance(obj, dict):
        return ("dict", tuple((k, snapshot(obj[k], depth + 1)) for k in sorted(obj, key=repr)))
    if hasattr(obj, "__dict__") and type(obj).__module__.startswith("testtools"):
        return (type(obj).__name__, snapshot(vars(obj), depth + 1))
    return ("leaf", id(obj))


def verdict(m, value):
    return m.match(value) is None


def check_match(m, den, value, vcopy=None):
    """Common oracle: verdict == denotation, deterministic, matcher and matchee unmodified."""
    before = snapshot(m)
    want = ch.cbool(den(value))
    got1 = verdict(m, value)
    got2 = verdict(m, value)
    problems = []
    if got1 != want:
        problems.append("match() verdict %s but the declared semantics give %s" % (got1, want))
    if got2 != got1:
        problems.append("second match() differs")
    if snapshot(m) != before:
        problems.append("matcher modified by match()")
    if vcopy is not None and not vcopy():
        problems.append("matchee modified by match()")
    ch.LAST["problems"] = problems
    ch.LAST["matcher"] = str(m)
    ch.LAST["matchee"] = repr(value)
    return want, problems


# --- harness: int domain ----------------------------------------------------------------------
def h_int(o0: int, o1: int, o2: int, o3: int, o4: int, o5: int, o6: int,
          p0: int, p1: int, p2: int, x: int, depth: int, alpha: int) -> bool:
    """
    pre: 0 <= depth <= 3 and 0 <= alpha < 2
    pre: 0 <= o0 < 16 and 0 <= o1 < 16 and 0 <= o2 < 16 and 0 <= o3 < 16
    pre: 0 <= o4 < 16 and 0 <= o5 < 16 and 0 <= o6 < 16
    post: _
    """
    dp = ch.sel("depth", depth, 4)
    al = ch.sel("alpha", alpha, 2)
    b = Builder([o0, o1, o2, o3, o4, o5, o6], [V(p0), V(p1), V(p2)], alphabet=REDUCED if al else FULL)
    try:
        m, den, desc = b.build(dp)
    except (IndexError, ch.Prune):
        return True
    want, problems = check_match(m, den, V(x))
    v = {"expr": desc, "verdict": want}
    return ch.finish(not problems, v, nontrivial=len(b.chosen) > 1)


# --- harness: sequence domain -----------------------------------------------------------------
SEQ_OPS = ["AllMatch", "AnyMatch", "Listwise2", "Listwise2First", "Setwise2", "Setwise3",
           "HasLength", "SameMembers2", "Contains", "ContainsAll2", "Setwise2Same",
           "AllMatch(AnyMatch)", "Not(AllMatch(AnyMatch))", "AnyMatch(AllMatch)", "Listwise[AnyMatch, AllMatch]"]
NESTED_FROM = 11
# nested matchees (lists of lists) for the nested quantifier combinators, built from x0..x2
SHAPES = ["[]", "[[]]", "[[x0]]", "[[x0], []]", "[[], [x1]]", "[[x0, x1]]", "[[x0], [x1]]", "[[x0], [x1, x2]]"]


def nested_value(shape, xs):
    x0, x1, x2 = xs
    return [[], [[]], [[x0]], [[x0], []], [[], [x1]], [[x0, x1]], [[x0], [x1]], [[x0], [x1, x2]]][shape]


def perm_exists(dens, values):
    if len(dens) != len(values):
        return False
    for perm in itertools.permutations(range(len(values))):
        ok = True
        for i, j in enumerate(perm):
            if not dens[i](values[j]):
                ok = False
                break
        if ok:
            return True
    return False


def multiset_equal(a, b):
    a, b = list(a), list(b)
    if len(a) != len(b):
        return False
    for x in a:
        found = False
        for k in range(len(b)):
            if b[k] == x:
                del b[k]
                found = True
                break
        if not found:
            return False
    return True


def build_seq(op, b, params):
    """Returns (matcher, denotation over list, description)."""
    if op == 0:
        m, d, s = b.build(1)
        return M.AllMatch(m), (lambda xs: all(d(x) for x in xs)), "AllMatch(%s)" % s
    if op == 1:
        m, d, s = b.build(1)
        return M.AnyMatch(m), (lambda xs: any(d(x) for x in xs)), "AnyMatch(%s)" % s
    if op in (2, 3):
        m1, d1, s1 = b.build(0)
        m2, d2, s2 = b.build(0)
        mm = M.MatchesListwise([m1, m2], first_only=(op == 3))
        return mm, (lambda xs: len(xs) == 2 and d1(xs[0]) and d2(xs[1])), "Listwise[%s, %s]" % (s1, s2)
    if op == 4:
        m1, d1, s1 = b.build(0)
        m2, d2, s2 = b.build(0)
        return (M.MatchesSetwise(m1, m2), (lambda xs: perm_exists([d1, d2], xs)),
                "Setwise(%s, %s)" % (s1, s2))
    if op == 5:
        b.leaves, b.uns, b.bins = SETWISE
        m1, d1, s1 = b.build(0)
        m2, d2, s2 = b.build(0)
        m3, d3, s3 = b.build(0)
        return (M.MatchesSetwise(m1, m2, m3), (lambda xs: perm_exists([d1, d2, d3], xs)),
                "Setwise(%s, %s, %s)" % (s1, s2, s3))
    if op == 6:
        k = ch.sel("k", params[3], 4)
        return M.HasLength(k), (lambda xs: len(xs) == k), "HasLength(%d)" % k
    if op == 7:
        exp = [params[0], params[1]]
        return M.SameMembers(exp), (lambda xs: multiset_equal(exp, xs)), "SameMembers([p0,p1])"
    if op == 8:
        p = params[0]
        return M.Contains(p), (lambda xs: any(x == p for x in xs)), "Contains(p0)"
    if op == 9:
        p, q = params[0], params[1]
        return (M.ContainsAll([p, q]), (lambda xs: any(x == p for x in xs) and any(x == q for x in xs)),
                "ContainsAll([p0,p1])")
    if op == 10:
        m1, d1, s1 = b.build(0)
        return (M.MatchesSetwise(m1, m1), (lambda xs: len(xs) == 2 and d1(xs[0]) and d1(xs[1])),
                "Setwise(m, m) with m=%s" % s1)
    if op == 11:
        m1, d1, s1 = b.build(0)
        return (M.AllMatch(M.AnyMatch(m1)), (lambda xss: all(any(d1(x) for x in xs) for xs in xss)),
                "AllMatch(AnyMatch(%s))" % s1)
    if op == 12:
        m1, d1, s1 = b.build(0)
        return (M.Not(M.AllMatch(M.AnyMatch(m1))), (lambda xss: not all(any(d1(x) for x in xs) for xs in xss)),
                "Not(AllMatch(AnyMatch(%s)))" % s1)
    if op == 13:
        m1, d1, s1 = b.build(0)
        return (M.AnyMatch(M.AllMatch(m1)), (lambda xss: any(all(d1(x) for x in xs) for xs in xss)),
                "AnyMatch(AllMatch(%s))" % s1)
    if op == 14:
        m1, d1, s1 = b.build(0)
        return (M.MatchesListwise([M.AnyMatch(m1), M.AllMatch(m1)]),
                (lambda xss: len(xss) == 2 and any(d1(x) for x in xss[0]) and all(d1(x) for x in xss[1])),
                "Listwise[AnyMatch(%s), AllMatch(%s)]" % (s1, s1))
    raise ch.Prune()


def h_seq(op: int, o0: int, o1: int, o2: int, p0: int, p1: int, p2: int, k: int,
          n: int, x0: int, x1: int, x2: int) -> bool:
    """
    pre: 0 <= op < 15 and 0 <= n <= 7 and 0 <= k < 4
    pre: 0 <= o0 < 16 and 0 <= o1 < 16 and 0 <= o2 < 16
    post: _
    """
    try:
        opc = ch.sel("op", op, len(SEQ_OPS))
        nn = ch.sel("n", n, 8 if opc >= NESTED_FROM else 4)
    except ch.Prune:
        return True
    if opc >= NESTED_FROM:
        xs = nested_value(nn, [V(x0), V(x1), V(x2)])      # n selects the shape of a list of lists
    else:
        xs = [V(x0), V(x1), V(x2)][:nn]
    b = Builder([o0, o1, o2], [V(p0), V(p1), V(p2)])
    try:
        m, den, desc = build_seq(opc, b, [V(p0), V(p1), V(p2), k])
    except (IndexError, ch.Prune):
        return True
    orig = list(xs)
    want, problems = check_match(m, den, xs, vcopy=lambda: len(xs) == len(orig) and all(a is c for a, c in zip(xs, orig)))
    v = {"expr": desc, "n": nn, "verdict": want}
    if opc >= NESTED_FROM:
        v["shape"] = SHAPES[nn]
    if ch.excluded(v):
        return True
    return ch.finish(not problems, v, nontrivial=nn >= 1)


# --- harness: dict domain --------------------------------------------------------------------
KEYS = ["a", "b", "c"]
DICT_OPS = ["MatchesDict", "ContainsDict", "ContainedByDict", "KeysEqual"]


FALSY = [None, 0, None]      # index 0 = use the symbolic value; 1 -> 0; 2 -> None


def h_dict(op: int, ek: int, ok: int, o0: int, o1: int, o2: int, p0: int, p1: int, p2: int,
           va: int, vb: int, vc: int, falsy: int) -> bool:
    """
    pre: 0 <= op < 4 and 0 <= ek < 8 and 0 <= ok < 8 and 0 <= falsy < 3
    pre: 0 <= o0 < 8 and 0 <= o1 < 8 and 0 <= o2 < 8
    post: _
    """
    try:
        opc = ch.sel("op", op, 4)
        e = ch.sel("ek", ek, 8)
        o = ch.sel("ok", ok, 8)
        fz = ch.sel("falsy", falsy, 3)
    except ch.Prune:
        return True
    b = Builder([o0, o1, o2], [V(p0), V(p1), V(p2)])
    expected, dens = {}, {}
    if fz:
        # plain falsy values are outside the domain of the ordering matchers; the point of this mode is the truthiness
        # of observed values, not the kind of leaf: every per-key matcher is Equals(p)
        b.leaves = (0,)
    descs = []
    for i, key in enumerate(KEYS):
        if e & (1 << i):
            if opc == 3:
                expected[key] = None
                continue
            try:
                m, d, s = b.build(0)
            except ch.Prune:
                return True
            expected[key] = m
            dens[key] = d
            descs.append("%s: %s" % (key, s))
    vals = [V(va), V(vb), V(vc)]
    if fz:
        # observed values that are falsy Python objects (0, "", None): a verdict must not depend on truthiness
        vals = [FALSY[fz]] * 3
    observed = {}
    for i, key in enumerate(KEYS):
        if o & (1 << i):
            observed[key] = vals[i]
    ekeys, okeys = set(expected), set(observed)
    common_ok = lambda obs: all(dens[k](obs[k]) for k in sorted(ekeys & okeys))  # noqa: E731
    if opc == 0:
        m, den = M.MatchesDict(expected), (lambda obs: ekeys == okeys and common_ok(obs))
    elif opc == 1:
        m, den = M.ContainsDict(expected), (lambda obs: ekeys <= okeys and common_ok(obs))
    elif opc == 2:
        m, den = M.ContainedByDict(expected), (lambda obs: okeys <= ekeys and common_ok(obs))
    else:
        m, den = M.KeysEqual(*sorted(expected)), (lambda obs: ekeys == okeys)
    snap_obs = dict(observed)
    want, problems = check_match(
        m, den, observed,
        vcopy=lambda: set(observed) == set(snap_obs) and all(observed[k] is snap_obs[k] for k in snap_obs))
    ch.LAST["matchee"] = repr(observed)
    v = {"op": DICT_OPS[opc], "expected": "{%s}" % ", ".join(descs) if opc != 3 else sorted(expected),
         "observed_keys": sorted(okeys), "verdict": want, "falsy": fz}
    return ch.finish(not problems, v, nontrivial=bool(ekeys or okeys))


# --- harness: structure domain ----------------------------------------------------------------
class Obj:
    def __init__(self, **kw):
        self.__dict__.update(kw)


def h_struct(variant: int, o0: int, o1: int, p0: int, p1: int, p2: int, x: int, y: int) -> bool:
    """
    pre: 0 <= variant < 5 and 0 <= o0 < 8 and 0 <= o1 < 8
    post: _
    """
    var = ch.sel("variant", variant, 5)
    p0, p1, p2, x, y = V(p0), V(p1), V(p2), V(x), V(y)
    b = Builder([o0, o1], [p0, p1, p2])
    obj = Obj(x=x, y=y, z=7)
    if var == 0:
        m1, d1, s1 = b.build(0)
        m2, d2, s2 = b.build(0)
        m, den, desc = M.MatchesStructure(x=m1, y=m2), (lambda o: d1(o.x) and d2(o.y)), "Structure(x=%s, y=%s)" % (s1, s2)
    elif var == 1:
        m, den, desc = M.MatchesStructure.byEquality(x=p0, y=p1), (lambda o: o.x == p0 and o.y == p1), "byEquality(x=p0,y=p1)"
    elif var == 2:
        m, den, desc = (M.MatchesStructure.byMatcher(M.LessThan, x=p0, y=p1),
                        (lambda o: o.x < p0 and o.y < p1), "byMatcher(LessThan,x=p0,y=p1)")
    elif var == 3:
        ex = Obj(x=p0, y=p1, z=7)
        m, den, desc = (M.MatchesStructure.fromExample(ex, "x", "z"), (lambda o: o.x == p0 and o.z == 7),
                        "fromExample(x,z)")
    else:
        m1, d1, s1 = b.build(0)
        base = M.MatchesStructure(x=M.Never(), y=M.Never())
        m, den, desc = base.update(x=m1, y=None), (lambda o: d1(o.x)), "update(x=%s, y=None)" % s1
    want, problems = check_match(m, den, obj, vcopy=lambda: obj.x is x and obj.y is y and obj.z == 7)
    v = {"expr": desc, "verdict": want}
    return ch.finish(not problems, v, nontrivial=True)


# --- harness: finite alphabets (strings, exceptions, callables) -----------------------------
STRS = ["", "a", "ab", "ba", "abc", "é", "aé"]
BSTRS = [b"", b"a", b"ab", b"\xe9a"]


class _KI(KeyboardInterrupt):
    pass


def _callable(kind):
    def f():
        if kind == 0:
            return 5
        if kind == 1:
            raise ValueError("a")
        if kind == 2:
            raise ValueError("b")
        if kind == 3:
            raise KeyError("a")
        if kind == 4:
            raise KeyboardInterrupt()
        raise _KI()
    return f


# exception matchers: (factory, denotation over (class, args))
def _exc_matchers():
    return [
        (None, lambda c, a: True, "Raises()"),
        (M.MatchesException(ValueError), lambda c, a: issubclass(c, ValueError), "ValueError"),
        (M.MatchesException(ValueError("a")), lambda c, a: issubclass(c, ValueError) and a == ("a",), "ValueError('a')"),
        (M.MatchesException(ValueError, "a+"), lambda c, a: issubclass(c, ValueError) and a == ("a",), "ValueError,'a+'"),
        (M.MatchesException((KeyError, ValueError)), lambda c, a: issubclass(c, (KeyError, ValueError)), "(KeyError,ValueError)"),
        (M.MatchesException(KeyboardInterrupt), lambda c, a: issubclass(c, KeyboardInterrupt), "KeyboardInterrupt"),
        (M.MatchesException(Exception, M.AfterPreprocessing(str, M.Equals("b"))), lambda c, a: issubclass(c, Exception) and a == ("b",), "Exception,str==b"),
    ]


RAISED = {1: (ValueError, ("a",)), 2: (ValueError, ("b",)), 3: (KeyError, ("a",)),
          4: (KeyboardInterrupt, ()), 5: (_KI, ())}


def _warner(kind):
    import warnings as _w

    def f():
        if kind == 1:
            _w.warn("old", DeprecationWarning)
        elif kind == 2:
            for _ in range(2):
                _w.warn("old", DeprecationWarning)       # the same warning twice from the same line
        elif kind == 3:
            _w.warn("old", DeprecationWarning)
            _w.warn("other", UserWarning)
        return kind
    return f


N_WARN = {0: 0, 1: 1, 2: 2, 3: 2}


def run_warn(kind, j):
    """Warnings()/Warnings(HasLength(k))/IsDeprecated over callables emitting 0, 1, 2 identical, 2 different warnings."""
    n = N_WARN[kind]
    if j == 0:
        m, want = M.Warnings(), n >= 1
    elif j in (1, 2, 3):
        m, want = M.Warnings(M.HasLength(j - 1)), n == j - 1
    else:
        m, want = M.IsDeprecated(M.Contains("old")), kind == 1
    got1 = verdict(m, _warner(kind))
    got2 = verdict(m, _warner(kind))
    problems = []
    if got1 != want or got2 != got1:
        problems.append("%s on a callable emitting %d warnings: %s then %s, expected %s" % (m, n, got1, got2, want))
    return {"case": "%s x warner%d" % (m, kind), "problems": problems}


def run_fin(group, i, j):
    """group 0: StartsWith/EndsWith/Contains over strings; 1: bytes; 2: Raises x callables; 3: Warnings."""
    if group == 3:
        return run_warn(i % 4, j % 5)
    problems = []
    if group in (0, 1):
        strs = STRS if group == 0 else BSTRS
        a, b = strs[i % len(strs)], strs[(i // len(strs)) % len(strs)]
        which = j % 3
        m = [M.StartsWith, M.EndsWith, M.Contains][which](b)
        want = [a.startswith(b), a.endswith(b), b in a][which]
        got = verdict(m, a)
        if got != want or verdict(m, a) != got:
            problems.append("%s on %r: %s, expected %s" % (m, a, got, want))
        return {"case": "%s.match(%r)" % (m, a), "problems": problems}
    kind = i % 6
    em, den, desc = _exc_matchers()[j % 7]
    m = M.Raises(em)
    f = _callable(kind)
    outcome = None
    try:
        outcome = "match" if m.match(f) is None else "mismatch"
    except BaseException as e:  # noqa
        if type(e).__module__.startswith("crosshair"):
            raise
        outcome = "propagated:%s" % type(e).__name__
    if kind == 0:
        want = "mismatch"
    else:
        c, a = RAISED[kind]
        if em is None and not issubclass(c, Exception):
            # documented: non-Exception errors propagate unless *explicitly* matched
            want = "propagated:%s" % c.__name__
        elif den(c, a):
            want = "match"
        elif not issubclass(c, Exception):
            want = "propagated:%s" % c.__name__
        else:
            want = "mismatch"
    if outcome != want:
        problems.append("Raises(%s) on callable kind %d: %s, expected %s" % (desc, kind, outcome, want))
    return {"case": "Raises(%s) x callable%d" % (desc, kind), "outcome": outcome, "problems": problems}


def h_fin(group: int, i: int, j: int) -> bool:
    """
    pre: 0 <= group < 4 and 0 <= i < 49 and 0 <= j < 7
    post: _
    """
    try:
        g = ch.sel("group", group, 4)
        ii = ch.sel("i", i, [49, 16, 6, 4][g])
        jj = ch.sel("j", j, [3, 3, 7, 5][g])
    except ch.Prune:
        return True
    o = run_fin(g, ii, jj)
    v = dict(group=g, i=ii, j=jj)
    return ch.finish(not o["problems"], v, nontrivial=True)


def _int_shards(tier):
    out = [({"depth": 0, "alpha": 0}, 300), ({"depth": 1, "alpha": 0}, 300)]
    # depth 2 over the reduced alphabet (4 leaves, Not/AfterPre, All/Any): 3964 trees
    out += [({"depth": 2, "alpha": 1, "o0": k}, 900) for k in range(4)]     # reduced alphabet: 4 leaves + 2 unary + 2 binary
    out += [({"depth": 2, "alpha": 1, "o0": k, "o1": j}, 900) for k in range(4, 8) for j in range(8)]
    if tier == "thorough":
        # depth 2 over the full alphabet: 151k trees, sharded by the first three opcodes
        out += [({"depth": 2, "alpha": 0, "o0": k}, 1800) for k in range(10)]
        out += [({"depth": 2, "alpha": 0, "o0": k, "o1": j}, 3000) for k in range(10, 13) for j in range(16)]
        out += [({"depth": 2, "alpha": 0, "o0": k, "o1": j, "o2": i}, 3000) for k in range(13, 16) for j in range(10)
                for i in range(10)]
    return out


def _seq_shards(tier):
    out = []
    for k in range(NESTED_FROM, len(SEQ_OPS)):
        out += [({"op": k, "n": n}, 900) for n in range(8)]
    for k in range(NESTED_FROM):
        for n in range(4):
            if k in (0, 1) and n >= 2:
                out += [({"op": k, "n": n, "o0": o}, 900) for o in range(16)]
            elif k == 5 and n >= 2:
                out += [({"op": k, "n": n, "o0": o, "o1": q}, 900) for o in range(4) for q in range(4)]
            else:
                out.append(({"op": k, "n": n}, 900))
    return out


HARNESSES = [
    Harness("int", h_int, _int_shards,
            bounds={"quick": "all matcher trees of depth <= 1 over 10 leaves {Equals, NotEquals, LessThan, GreaterThan (symbolic "
                             "unbounded int parameters), Always, Never, IsInstance, Is(None), MatchesAny(), MatchesAll()} and combinators {Not, Annotate, "
                             "AfterPreprocessing(+1), MatchesAll, MatchesAll(first_only), MatchesAny} (340 trees), plus all 3964 trees of depth 2 over "
                             "the reduced alphabet {Equals, LessThan, Never, NotEquals | Not, AfterPreprocessing | MatchesAll, MatchesAny}; "
                             "matchee: one unbounded symbolic int (wrapped in an opaque ordered value)",
                    "thorough": "additionally depth-2 trees over the full 16-opcode alphabet selected by pre-order prefixes: top opcode < 13 with any first child; binary tops whose next two pre-order opcodes are < 10 (measured: 358 shards, 2 310 further paths)"},
            rule="one (tree, branch outcome pattern) per path covering all ints on that pattern; non-trivial = tree has a combinator",
            sym=("p0", "p1", "p2", "x"), twin_fix={"depth": 1, "alpha": 0}),
    Harness("seq", h_seq, _seq_shards,
            bounds={"quick": "AllMatch/AnyMatch over depth-1 int expressions; MatchesListwise (2, +first_only), MatchesSetwise "
                             "(2 matchers over 8 leaves, 3 matchers over {Equals, NotEquals, LessThan, Always}, and the same matcher object twice), HasLength(0..3), SameMembers, Contains, "
                             "ContainsAll over leaf matchers with symbolic parameters; matchee: list of 0..3 unbounded symbolic ints; nested quantifiers "
                             "AllMatch(AnyMatch), Not(AllMatch(AnyMatch)), AnyMatch(AllMatch), Listwise[AnyMatch, AllMatch] over 8 shapes of "
                             "lists of lists incl. empty inner lists"},
            rule="non-trivial = non-empty list", sym=("p0", "p1", "p2", "x0", "x1", "x2"), twin_fix={"op": 0, "n": 2}),
    Harness("dict", h_dict, lambda tier: [({"op": k, "ek": e}, 600) for k in range(4) for e in range(8)],
            bounds={"quick": "MatchesDict / ContainsDict / ContainedByDict / KeysEqual with every expected key set over {a,b,c} "
                             "(leaf matchers with symbolic parameters) x every observed key set with symbolic int values or with falsy values (0, None)"},
            rule="non-trivial = some key on either side", sym=("p0", "p1", "p2", "va", "vb", "vc"),
            twin_fix={"op": 0, "ek": 3}),
    Harness("struct", h_struct, lambda tier: [({"variant": k}, 600) for k in range(5)],
            bounds={"quick": "MatchesStructure (direct, byEquality, byMatcher, fromExample, update) over leaf matchers with symbolic "
                             "parameters; object with symbolic int attributes"},
            rule="every path non-trivial", sym=("p0", "p1", "p2", "x", "y")),
    Harness("fin", h_fin, lambda tier: [({"group": g}, 600) for g in range(4)],
            bounds={"quick": "StartsWith/EndsWith/Contains over 7x7 strings and 4x4 byte strings; Raises() with 7 exception "
                             "matchers x 6 callables (return, ValueError a/b, KeyError, KeyboardInterrupt and a subclass) incl. the "
                             "propagation rule for non-Exception errors; Warnings() / Warnings(HasLength(0..2)) / IsDeprecated over callables "
                             "emitting 0, 1, 2 identical (same line) and 2 different warnings"},
            rule="every path non-trivial",
            fidelity=lambda seed: [(g, i, j) for g in range(4) for i in range(4) for j in range(3)],
            observe=lambda g, i, j: run_fin(g, i, j), describe=run_fin),
]
OUTSIDE = ["verdicts of MatchesRegex, DocTestMatches, filesystem/tarball and Warnings leaves for arbitrary patterns/paths (C regex, OS state)",
           "trees deeper than the bound; lists longer than 3; dict keys beyond {a,b,c}",
           "matchees of types other than int / list / dict / attribute object in the symbolic harnesses"]
