"""C16 - Content is lossless and independent of chunking."""
import io
import json

from testtools import content as C
from testtools.content_type import ContentType
from testtools.testcase import _copy_content, gather_details
from testtools.testresult.real import _make_content_type

from vf import ch
from vf.driver import Harness

PROPERTY = "C16"


class ModelStream:
    """In-memory stream model with io.BytesIO's read/seek contract; counts operations."""

    def __init__(self, data):
        self.data = data
        self.pos = 0
        self.reads = 0
        self.bad_seek = False

    def seek(self, off, whence=0):
        if whence == 0:
            new = off
        elif whence == 1:
            new = self.pos + off
        else:
            new = len(self.data) + off
        if new < 0:
            self.bad_seek = True
            raise ValueError("negative seek")
        self.pos = new
        return new

    def read(self, n=-1):
        self.reads += 1
        if n is None or n < 0:
            out = self.data[self.pos:]
        else:
            out = self.data[self.pos:self.pos + n]
        self.pos += len(out)
        return out


# (a) chunk reader -----------------------------------------------------------------------------
def run_reader(data, chunk_size, use_seek, seek_offset, whence2, buffer_now):
    n = len(data)
    if use_seek:
        start = (n + seek_offset) if whence2 else seek_offset
    else:
        start = 0
    if start < 0:
        return None
    st = ModelStream(data)
    cont = C.content_from_stream(st, ContentType("application", "octet-stream"), chunk_size,
                                 buffer_now=buffer_now,
                                 seek_offset=seek_offset if use_seek else None,
                                 seek_whence=2 if whence2 else 0)
    reads_at_construction = st.reads
    chunks = list(cont.iter_bytes())
    reads_after = st.reads
    problems = []
    if not buffer_now and reads_at_construction != 0:
        problems.append("read before iter_bytes() although buffer_now is False")
    if buffer_now and reads_after != reads_at_construction:
        problems.append("buffer_now content read the stream again")
    joined = b"".join(chunks)
    if joined != data[start:]:
        problems.append("bytes differ from data[start:]")
    if buffer_now:
        # a buffered content is a snapshot: iterating again yields the same chunks without touching the stream
        again = list(cont.iter_bytes())
        if again != chunks or st.reads != reads_after:
            problems.append("second iteration of a buffered content differs / reads the stream again")
    for c in chunks:
        if len(c) == 0 or len(c) > chunk_size:
            problems.append("chunk of size %d with chunk_size %d" % (len(c), chunk_size))
            break
    return {"chunks": chunks, "start": start, "problems": problems}


def h_reader(data: bytes, chunk_size: int, mode: int, seek_offset: int, maxlen: int) -> bool:
    """
    pre: len(data) <= 8 and 1 <= chunk_size <= 9 and -9 <= seek_offset <= 9
    pre: 0 <= mode < 8 and 0 <= maxlen <= 8
    post: _
    """
    ml = ch.sel("maxlen", maxlen, 9)
    m = ch.sel("mode", mode, 8)
    us, w2, bn = bool(m & 1), bool(m & 2), bool(m & 4)
    if w2 and not us:
        return True
    if len(data) > ml or chunk_size > ml + 1 or seek_offset > ml + 1 or seek_offset < -(ml + 1):
        return True
    if not us and seek_offset != 0:
        return True
    o = run_reader(data, chunk_size, us, seek_offset, w2, bn)
    if o is None:
        return True
    v = {"maxlen": ml, "use_seek": us, "whence2": w2, "buffer_now": bn, "nchunks": len(o["chunks"]),
         "start_past_eof": ch.cbool(o["start"] >= len(data))}
    return ch.finish(not o["problems"], v, nontrivial=len(o["chunks"]) >= 1)


# (a2) content_from_file on a real temp file (C-level I/O: values are enumerated by the engine)
def run_file(length, chunk_size, use_seek, seek_offset, whence2, buffer_now):
    import os
    import tempfile
    data = bytes((i * 37 + 11) % 256 for i in range(length))
    start = ((length + seek_offset) if whence2 else seek_offset) if use_seek else 0
    if start < 0:
        return None
    fd, path = tempfile.mkstemp(prefix="vf_c16_")
    try:
        os.write(fd, data)
        os.close(fd)
        cont = C.content_from_file(path, ContentType("application", "octet-stream"), chunk_size,
                                   buffer_now=buffer_now,
                                   seek_offset=seek_offset if use_seek else None,
                                   seek_whence=2 if whence2 else 0)
        if buffer_now:
            os.unlink(path)      # must not be needed any more
        chunks = list(cont.iter_bytes())
        again = list(cont.iter_bytes())      # the file is re-opened (or the buffer re-used): same bytes again
    finally:
        if os.path.exists(path):
            os.unlink(path)
    problems = []
    if b"".join(chunks) != data[start:]:
        problems.append("bytes differ from file[start:]")
    if any(len(c) == 0 or len(c) > chunk_size for c in chunks):
        problems.append("bad chunk size")
    if again != chunks:
        problems.append("second iteration yields %r, first %r" % (again, chunks))
    return {"chunks": chunks, "problems": problems}


def h_file(length: int, chunk_size: int, use_seek: bool, seek_offset: int, whence2: bool,
           buffer_now: bool) -> bool:
    """
    pre: 0 <= length <= 5 and 1 <= chunk_size <= 6 and -6 <= seek_offset <= 6
    post: _
    """
    ln = ch.sel("length", length, 6)
    cs = ch.conc(chunk_size - 1, 6) + 1
    so = ch.conc(seek_offset + 6, 13) - 6
    us, w2, bn = ch.cbool(use_seek), ch.cbool(whence2), ch.cbool(buffer_now)
    if not us and so != 0:
        return True
    o = run_file(ln, cs, us, so, w2, bn)
    if o is None:
        return True
    v = dict(length=ln, chunk_size=cs, use_seek=us, seek_offset=so, whence2=w2, buffer_now=bn)
    return ch.finish(not o["problems"], v, nontrivial=ln > 0)


# (b) text decoding independent of chunking ---------------------------------------------------
ALPHA = ["A", "\x00", "é", "€", "́", "\U0001F600", "\n", "'"]


def run_text(cps, charset_none, i, j, trunc=False):
    text = "".join(ALPHA[c] for c in cps)
    if charset_none:
        try:
            whole = text.encode("ISO-8859-1")
        except UnicodeEncodeError:
            return None
        ct = ContentType("text", "plain")
        enc = "ISO-8859-1"
    else:
        whole = text.encode("utf8")
        ct = ContentType("text", "plain", {"charset": "utf8"})
        enc = "utf8"
    if trunc:
        whole = whole[:-1]       # possibly ends inside a multi-byte sequence: decoding the whole string fails
    if not (0 <= i <= j <= len(whole)):
        return None
    chunks = [whole[:i], whole[i:j], whole[j:]]
    problems = []
    try:
        want = ("ok", whole.decode(enc))
    except UnicodeDecodeError:
        want = ("UnicodeDecodeError", None)
    try:
        got = ("ok", C.Content(ct, lambda: chunks).as_text())
    except UnicodeDecodeError:
        got = ("UnicodeDecodeError", None)
    if got != want:
        problems.append("as_text() %r != whole-string decode %r for chunks %r" % (got, want, chunks))
    got = got[1]
    if not charset_none and not trunc:
        tc = C.text_content(text)
        if tc.as_text() != text or b"".join(tc.iter_bytes()) != text.encode("utf8"):
            problems.append("text_content does not round-trip %r" % (text,))
        jc = C.json_content({"k": [text, len(text)]})
        if json.loads(b"".join(jc.iter_bytes()).decode("utf8")) != {"k": [text, len(text)]}:
            problems.append("json_content does not round-trip")
        if jc.content_type != ContentType("application", "json"):
            problems.append("json_content type")
    return {"text": text, "chunks": chunks, "got": got, "problems": problems}


def h_text(n: int, c0: int, c1: int, c2: int, c3: int, charset_none: bool, i: int, j: int, trunc: bool) -> bool:
    """
    pre: 0 <= n <= 4 and 0 <= i <= j <= 16
    pre: 0 <= c0 < 8 and 0 <= c1 < 8 and 0 <= c2 < 8 and 0 <= c3 < 8
    post: _
    """
    nn = ch.sel("n", n, 5)
    raw = [c0, c1, c2, c3]
    cps = [ch.sel("c%d" % k, raw[k], len(ALPHA)) for k in range(nn)]
    cn = ch.cbool(charset_none)
    tr = ch.cbool(trunc)
    text = "".join(ALPHA[c] for c in cps)
    try:
        blen = len(text.encode("ISO-8859-1" if cn else "utf8"))
    except UnicodeEncodeError:
        return True
    if tr:
        if blen == 0 or cn:
            return True
        blen -= 1
    try:
        ii = ch.conc(i, blen + 1)
        jj = ch.conc(j, blen + 1)
    except ch.Prune:
        return True
    o = run_text(cps, cn, ii, jj, tr)
    if o is None:
        return True
    v = dict(cps=tuple(cps), charset_none=cn, i=ii, j=jj, trunc=tr)
    return ch.finish(not o["problems"], v, nontrivial=blen > nn or (nn >= 2 and 0 < ii < blen))


# (c) Content equality ------------------------------------------------------------------------
def h_eq(a: bytes, b: bytes, ia: int, ib: int, same_type: bool) -> bool:
    """
    pre: len(a) <= 3 and len(b) <= 3 and 0 <= ia <= len(a) and 0 <= ib <= len(b)
    post: _
    """
    st = ch.cbool(same_type)
    t1 = ContentType("application", "octet-stream")
    t2 = t1 if st else ContentType("application", "x-other")
    ca = [a[:ia], a[ia:]]
    cb = [b[:ib], b"", b[ib:]]
    c1 = C.Content(t1, lambda: ca)
    c2 = C.Content(t2, lambda: cb)
    got = ch.cbool(c1 == c2)
    want = ch.cbool(st and a == b)
    la, lb = ch.conc(len(a), 4), ch.conc(len(b), 4)
    v = dict(same_type=st, equal=want, la=la, lb=lb)
    return ch.finish(got == want, v, nontrivial=la + lb > 0)


# (d) ContentType -> MIME string -> ContentType ------------------------------------------------
TOK = ["text", "application", "x-a.b+c"]
SUB = ["plain", "octet-stream", "x-traceback"]
PNAME = ["charset", "language", "x"]
PVAL = ["utf8", "", "a b", "a;b", "a=b", "a,b", "é", "python", "8", "UTF-8", "Shift_JIS", "X y"]


def run_ctype(t, s, npar, n0, v0, n1, v1):
    params = {}
    if npar >= 1:
        params[PNAME[n0]] = PVAL[v0]
    if npar >= 2:
        if n1 == n0:
            return None
        params[PNAME[n1]] = PVAL[v1]
    ct = ContentType(TOK[t], SUB[s], dict(params))
    problems = []
    try:
        back = _make_content_type(repr(ct))
    except Exception as e:
        back = None
        problems.append("re-parsing %r raised %r" % (repr(ct), e))
    if back is not None and back != ct:
        problems.append("%r re-parsed as %r/%r %r" % (repr(ct), back.type, back.subtype, back.parameters))
    return {"mime": repr(ct), "params": params, "problems": problems}


def h_ctype(t: int, s: int, npar: int, n0: int, v0: int, n1: int, v1: int) -> bool:
    """
    pre: 0 <= t < 3 and 0 <= s < 3 and 0 <= npar <= 2 and 0 <= n0 < 3 and 0 <= n1 < 3
    pre: 0 <= v0 < 12 and 0 <= v1 < 12
    post: _
    """
    v = dict(t=ch.sel("t", t, 3), s=ch.sel("s", s, 3), npar=ch.sel("npar", npar, 3))
    v["n0"] = ch.sel("n0", n0, 3) if v["npar"] >= 1 else 0
    v["v0"] = ch.sel("v0", v0, len(PVAL)) if v["npar"] >= 1 else 0
    v["n1"] = ch.sel("n1", n1, 3) if v["npar"] >= 2 else 0
    v["v1"] = ch.sel("v1", v1, len(PVAL)) if v["npar"] >= 2 else 0
    o = run_ctype(v["t"], v["s"], v["npar"], v["n0"], v["v0"], v["n1"], v["v1"])
    if o is None:
        return True
    v["params"] = o["params"]
    if ch.excluded(v):
        return True
    return ch.finish(not o["problems"], v, nontrivial=v["npar"] >= 1)


# (e) snapshots -------------------------------------------------------------------------------
def h_snap(a: bytes, b: bytes, nsrc: int, collide: bool) -> bool:
    """
    pre: len(a) <= 2 and len(b) <= 2 and 1 <= nsrc <= 2
    post: _
    """
    ns = ch.conc(nsrc - 1, 2) + 1
    col = ch.cbool(collide)
    src_chunks = [a, b]
    ct = ContentType("application", "octet-stream")
    src = C.Content(ct, lambda: src_chunks)
    ok = True
    copy = _copy_content(src)
    before = b"".join(copy.iter_bytes())
    target = {}
    if col:
        target["d"] = C.Content(ct, lambda: [b"old"])
    source = {"d": src}
    if ns == 2:
        source["e"] = C.Content(ct, lambda: src_chunks)
    gather_details(source, target)
    # mutate the source afterwards
    src_chunks.append(b"LATER")
    src_chunks[0] = b"CHANGED"
    if b"".join(copy.iter_bytes()) != before or before != a + b:
        ok = False
    name = "d-1" if col else "d"
    if name not in target or b"".join(target[name].iter_bytes()) != a + b:
        ok = False
    if col and b"".join(target["d"].iter_bytes()) != b"old":
        ok = False
    if ns == 2 and b"".join(target["e"].iter_bytes()) != a + b:
        ok = False
    if target[name].content_type != ct:
        ok = False
    if len(target) != ns + (1 if col else 0):
        ok = False
    v = dict(nsrc=ns, collide=col, la=ch.conc(len(a), 3), lb=ch.conc(len(b), 3))
    return ch.finish(ok, v, nontrivial=True)


def _reader_shards(tier):
    ml = 4 if tier == "quick" else 6
    return [({"maxlen": ml, "mode": m}, 400 if tier == "quick" else 3000) for m in (0, 1, 3, 4, 5, 7)]


def _text_shards(tier):
    if tier == "quick":
        return [({"n": n}, 300) for n in range(3)] + [({"n": 3, "c0": c}, 300) for c in range(len(ALPHA))]
    return ([({"n": n}, 600) for n in range(3)] + [({"n": 3, "c0": c}, 900) for c in range(len(ALPHA))]
            + [({"n": 4, "c0": c, "c1": d}, 2400) for c in (0, 2, 3, 5) for d in (0, 2, 3, 5)])


HARNESSES = [
    Harness("reader", h_reader, _reader_shards,
            bounds={"quick": "content_from_stream over a model stream: symbolic data bytes (any values) of length <= 4, "
                             "chunk_size 1..5, seek_offset None or -5..5, whence in {0,2}, buffer_now both",
                    "thorough": "length <= 6, chunk_size 1..7, seek_offset -7..7"},
            rule="non-trivial = at least one chunk produced; distinct by (flags, chunk count, start past EOF)",
            sym=("data", "chunk_size", "seek_offset"),
            fidelity=lambda seed: [(b"abcde", cs, m, so, 5) for cs in (1, 2, 5, 6) for m in (0, 1, 3, 4, 5, 7)
                                   for so in (0, 2, -2, 6) if (m & 1) or so == 0],
            observe=lambda d, cs, m, so, ml: (lambda o: None if o is None else (o["chunks"], o["problems"]))(run_reader(d, cs, bool(m & 1), so, bool(m & 2), bool(m & 4))),
            describe=lambda d, cs, m, so, ml: run_reader(d, cs, bool(m & 1), so, bool(m & 2), bool(m & 4)),
            assumptions=["the stream is modelled by ModelStream (io.BytesIO contract for read/seek; negative "
                         "absolute positions raise and are outside the claim)"]),
    Harness("file", h_file, lambda tier: [({"length": n}, 600) for n in range(6)],
            bounds={"quick": "content_from_file on a real temporary file of length 0..5, chunk_size 1..6, "
                             "seek_offset None or -6..6, whence {0,2}, buffer_now both (file deleted after "
                             "construction when buffer_now)"},
            rule="non-trivial = non-empty file", twin_fix={"length": 2},
            describe=run_file),
    Harness("text", h_text, _text_shards,
            bounds={"quick": "texts of 0..3 code points over {A, NUL, e-acute, euro, combining acute, astral emoji, "
                             "newline, quote}; UTF-8 with declared charset or ISO-8859-1 with none; every pair of cut "
                             "positions 0 <= i <= j <= len(bytes) (cuts inside multi-byte sequences, empty chunks); also with the last byte removed (a byte string "
                             "ending inside a multi-byte sequence must fail exactly as whole-string decoding does)",
                    "thorough": "0..3 code points as quick; 4 code points whose first two are from {A, e-acute, euro, emoji}"},
            rule="non-trivial = some multi-byte character or an interior cut", twin_fix={"n": 2},
            fidelity=lambda seed: [(2, 2, 3, 0, 0, False, i, j, t) for i in range(5) for j in range(i, 5) for t in (False, True)],
            observe=lambda n, c0, c1, c2, c3, cn, i, j, t: (lambda o: None if o is None else o["got"])(run_text([c0, c1, c2, c3][:n], cn, i, j, t)),
            describe=lambda n, c0, c1, c2, c3, cn, i, j, t: run_text([c0, c1, c2, c3][:n], cn, i, j, t)),
    Harness("eq", h_eq, lambda tier: [({}, 600)],
            bounds={"quick": "two contents with symbolic bytes of length <= 3 each, arbitrary cut positions, same or different type"},
            rule="non-trivial = some byte present; distinct by (same_type, equal, lengths)", sym=("a", "b")),
    Harness("ctype", h_ctype, lambda tier: [({"t": t}, 600) for t in range(3)],
            bounds={"quick": "type in {text, application, x-a.b+c} x subtype in 3 x 0..2 parameters named "
                             "charset/language/x with values from {utf8, '', 'a b', 'a;b', 'a=b', 'a,b', e-acute, python, 8, UTF-8, Shift_JIS, 'X y'}"},
            rule="non-trivial = at least one parameter",
            fidelity=lambda seed: [(0, 0, 1, 0, v, 0, 0) for v in range(len(PVAL))],
            observe=lambda *a: (lambda o: None if o is None else o["problems"])(run_ctype(*a)),
            describe=run_ctype),
    Harness("snap", h_snap, lambda tier: [({}, 600)],
            bounds={"quick": "_copy_content / gather_details over 1..2 source details with 2 symbolic chunks (len <= 2), "
                             "with and without a name collision; source mutated afterwards"},
            rule="every path non-trivial", sym=("a", "b")),
]
OUTSIDE = ["Unicode beyond the 8-character class alphabet and texts longer than the bound (codecs are C code)",
           "stream objects other than the model; files other than the temporary ones",
           "quote characters in content-type parameters (excluded by the property)"]
