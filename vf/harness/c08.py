"""C08 - result adapters deliver each call once, at the richest protocol the target has."""
import sys

import testtools
from testtools import ErrorHolder, PlaceHolder
from testtools.content import text_content
from testtools.testresult import doubles
from testtools.testresult.real import (ExtendedToOriginalDecorator, MultiTestResult, Tagger, TestByTestResult,
                                       TestResultDecorator)

from vf import ch, programs as P
from vf.driver import Harness

PROPERTY = "C08"
OUTCOMES = ["success", "failure", "error", "skip", "xfail", "uxsuccess"]
TARGETS = ["py26", "py27", "extended", "twisted", "testtools.TestResult", "TestByTestResult"]
TOPS = ["none", "ETOD", "Multi(1)", "Multi(2)", "TestResultDecorator", "Tagger(+tg)", "Tagger(-a)"]
BOTTOMS = ["ETOD", "Multi(1)", "Multi(2)"]
TESTOBJ = ["TestCase", "PlaceHolder", "ErrorHolder"]
DETAIL_TEXT = "détail-text"
TRACE_TEXT = "trace-text"


class _T(testtools.TestCase):
    def test_x(self):
        pass


def _exc_info():
    try:
        raise RuntimeError("boom-exc")
    except RuntimeError:
        return sys.exc_info()


def make_target(kind):
    if kind == 0:
        r = doubles.Python26TestResult()
    elif kind == 1:
        r = doubles.Python27TestResult()
    elif kind == 2:
        r = doubles.ExtendedTestResult()
    elif kind == 3:
        r = doubles.TwistedTestResult()
    elif kind == 4:
        r = P.LoggingTestResult()
    else:
        calls = []
        r = TestByTestResult(lambda **kw: calls.append(kw))
        r._calls = calls
        return r
    return r


def build_stack(top, bottom, tkind):
    """Returns (outermost result, list of innermost targets)."""
    targets = [make_target(tkind)]
    if bottom == 0:
        cur = ExtendedToOriginalDecorator(targets[0])
    elif bottom == 1:
        cur = MultiTestResult(targets[0])
    else:
        targets.append(make_target(tkind))
        cur = MultiTestResult(targets[0], targets[1])
    if top == 1:
        cur = ExtendedToOriginalDecorator(cur)
    elif top == 2:
        cur = MultiTestResult(cur)
    elif top == 3:
        targets.append(make_target(tkind))
        cur = MultiTestResult(cur, targets[-1])
    elif top == 4:
        cur = TestResultDecorator(cur)
    elif top == 5:
        cur = Tagger(cur, iter(["tg"]), ())       # the tags may be given as any iterable, also a one-shot one
    elif top == 6:
        cur = Tagger(cur, iter(()), iter(["a"]))       # a tagger that only removes a tag
    return cur, targets


def make_test(kind, n):
    if kind == 0:
        return testtools.clone_test_with_new_id(_T("test_x"), "t%d" % n)
    if kind == 1:
        return PlaceHolder("t%d" % n)
    return ErrorHolder("t%d" % n, _exc_info())


def expected_event(outcome, tkind):
    """Event name at the target after the documented degradation."""
    if tkind == 0:
        return {"success": "addSuccess", "failure": "addFailure", "error": "addError", "skip": "addSuccess",
                "xfail": "addSuccess", "uxsuccess": "addFailure"}[outcome]
    return P.EVENT[outcome]


BTB_STATUS = {"success": "success", "failure": "failure", "error": "error", "skip": "skip", "xfail": "xfail",
              "uxsuccess": "success"}


def empty_details(outcome, as_details, n):
    """The second test of a history reports a success in details form with an EMPTY dict (what TestCase.run sends for a
    passing test without attachments)."""
    return bool(as_details) and outcome == "success" and n == 1


def call_outcome(res, test, outcome, as_details, n=0):
    if empty_details(outcome, as_details, n):
        res.addSuccess(test, details={})
    elif as_details:
        d = {"d": text_content(DETAIL_TEXT)}
        if outcome in ("failure", "error", "xfail"):
            d["traceback"] = text_content(TRACE_TEXT)      # a traceback detail next to another text detail
        if outcome == "skip":
            d = {"reason": text_content(DETAIL_TEXT)}
        getattr(res, P.EVENT[outcome])(test, details=d)
    elif outcome == "success":
        res.addSuccess(test)
    elif outcome == "uxsuccess":
        res.addUnexpectedSuccess(test)
    elif outcome == "skip":
        res.addSkip(test, DETAIL_TEXT)
    else:
        getattr(res, P.EVENT[outcome])(test, _exc_info())


def payload_ok(ev, outcome, as_details, tkind):
    """The detail/reason/exception text must survive in whatever form the target accepts."""
    name = ev[0]
    if name in ("addSuccess", "addUnexpectedSuccess") and len(ev) == 2:
        return True
    if len(ev) < 3:
        return True
    x = ev[2]
    if outcome == "uxsuccess":
        return True      # no old-style protocol can carry details of an unexpected success
    want = DETAIL_TEXT if (as_details or outcome == "skip") else "boom-exc"
    both = as_details and outcome in ("failure", "error", "xfail")
    if isinstance(x, dict):
        texts = [c.as_text() for c in x.values() if c.content_type.type == "text"]
        return any(want in t for t in texts) and (not both or any(TRACE_TEXT in t for t in texts))
    if isinstance(x, tuple):
        if as_details:
            return want in str(x[1]) and (not both or TRACE_TEXT in str(x[1]))
        return x[1] is not None and want in str(x[1])
    if isinstance(x, str):
        return want in x
    return x is None


def run_history(top, bottom, tkind, tobj, ntests, o1, d1, o2, d2, extras):
    res, targets = build_stack(top, bottom, tkind)
    problems = []
    tests = []
    plan = [(o1, d1), (o2, d2)][:ntests]
    tokens = ["<time-1>", "<time-2>", "<time-3>", "<time-4>"]
    try:
        if extras & 1:
            res.startTestRun()
        if extras & 4:
            res.tags({"a", "b"}, set())          # run-level tags
        for n, (oi, dt) in enumerate(plan):
            test = make_test(tobj, n)
            tests.append(test)
            if extras & 2:
                res.time(tokens[2 * n])
            res.startTest(test)
            if extras & 4:
                res.tags({"c"}, set())           # test-local tag
            if extras & 2:
                res.time(tokens[2 * n + 1])
            call_outcome(res, test, OUTCOMES[oi], dt, n)
            res.stopTest(test)
        if extras & 8:
            res.stop()
        if extras & 16:
            # progress()/done() are optional protocol: only some adapters define them; a layer lacking
            # them raises AttributeError, which is not the subject of this property
            for call in (lambda: res.progress(2, 1), lambda: res.done()):
                try:
                    call()
                except AttributeError:
                    pass
        if extras & 1:
            res.stopTestRun()
    except Exception as e:
        problems.append("adapter stack raised %s: %s" % (type(e).__name__, e))
        return {"problems": problems}
    for ti, t in enumerate(targets):
        if tkind == 5:
            calls = t._calls
            if len(calls) != len(plan):
                problems.append("TestByTestResult made %d callbacks for %d tests" % (len(calls), len(plan)))
                continue
            for n, (c, (oi, dt)) in enumerate(zip(calls, plan)):
                if c["test"] is not tests[n] or c["status"] != BTB_STATUS[OUTCOMES[oi]]:
                    problems.append("callback %d: test/status %r, expected %s" % (n, c["status"], BTB_STATUS[OUTCOMES[oi]]))
                if extras & 2 and (c["start_time"] != tokens[2 * n] or c["stop_time"] != tokens[2 * n + 1]):
                    problems.append("callback %d: times %r..%r" % (n, c["start_time"], c["stop_time"]))
                want_tags = (({"a", "b", "c"} if extras & 4 else set()) | ({"tg"} if top == 5 else set())) - ({"a"} if top == 6 else set())
                if set(c["tags"]) != want_tags:
                    problems.append("callback %d: tags %r, expected %r" % (n, c["tags"], want_tags))
                if empty_details(OUTCOMES[oi], dt, n):
                    if c["details"] != {}:
                        problems.append("callback %d: details %r, the (empty) details dict was passed" % (n, c["details"]))
                elif dt and not any(DETAIL_TEXT in x.as_text() for x in (c["details"] or {}).values()):
                    problems.append("callback %d: details lost" % n)
            continue
        evs = [e for e in t._events if e[0] in ("startTest", "stopTest") or e[0].startswith("add")]
        want = []
        for n, (oi, dt) in enumerate(plan):
            want += [("startTest", n), (expected_event(OUTCOMES[oi], tkind), n), ("stopTest", n)]
        got = [(e[0], tests.index(e[1]) if e[1] in tests else -1) for e in evs]
        if got != want:
            problems.append("target %d (%s) saw %r, expected %r" % (ti, TARGETS[tkind], got, want))
            continue
        k = 0
        for n, (oi, dt) in enumerate(plan):
            ev = evs[3 * n + 1]
            if empty_details(OUTCOMES[oi], dt, n):
                pass          # nothing to lose (the doubles log addSuccess(details={}) and addSuccess() alike)
            elif not payload_ok(ev, OUTCOMES[oi], dt, tkind):
                problems.append("target %d: payload of %s lost: %r" % (ti, ev[0], ev[2:]))
        if extras & 8 and not getattr(t, "shouldStop", True):
            problems.append("stop() did not reach target %d" % ti)
        if extras & 2 and tkind == 2:
            times = [e[1] for e in t._events if e[0] == "time"]
            if times != tokens[:2 * len(plan)]:
                problems.append("time() calls at target %d: %r" % (ti, times))
        if extras & 1 and tkind in (1, 2, 4):
            names = [e[0] for e in t._events]
            if names.count("startTestRun") != 1 or names.count("stopTestRun") != 1:
                problems.append("run boundaries at target %d: %r" % (ti, names))
        # through the adapters a failing outcome never becomes a passing one
        for n, (oi, dt) in enumerate(plan):
            if OUTCOMES[oi] in ("failure", "error", "uxsuccess") and evs[3 * n + 1][0] in ("addSuccess", "addSkip", "addExpectedFailure"):
                problems.append("failing outcome %s became %s at target %d" % (OUTCOMES[oi], evs[3 * n + 1][0], ti))
    return {"stack": "%s / %s over %s" % (TOPS[top], BOTTOMS[bottom], TARGETS[tkind]), "test": TESTOBJ[tobj],
            "plan": [(OUTCOMES[o], "details" if d else "exc_info/plain") for o, d in plan], "problems": problems}


def h_hist(top: int, bottom: int, tkind: int, tobj: int, ntests: int, o1: int, d1: bool, o2: int, d2: bool,
           extras: int, mode: int) -> bool:
    """
    pre: 0 <= top < 7 and 0 <= bottom < 3 and 0 <= tkind < 6 and 0 <= tobj < 3 and 1 <= ntests <= 2
    pre: 0 <= o1 < 6 and 0 <= o2 < 6 and 0 <= extras < 32 and 0 <= mode < 2
    post: _
    """
    try:
        v = dict(top=ch.sel("top", top, 7), bottom=ch.sel("bottom", bottom, 3), tkind=ch.sel("tkind", tkind, 6),
                 tobj=ch.sel("tobj", tobj, 3), ntests=ch.sel("ntests", ntests, 3), o1=ch.sel("o1", o1, 6),
                 d1=ch.cbool(d1))
        if v["ntests"] < 1:
            return True
        md = ch.sel("mode", mode, 2)
        if v["ntests"] == 2:
            v["o2"], v["d2"] = ch.sel("o2", o2, 6), (ch.cbool(d2) if md else v["d1"])
        else:
            v["o2"], v["d2"] = 0, False
        # mode 0: four representative extras combinations; mode 1: all 32
        v["extras"] = ch.sel("extras", extras, 32) if md else EXTRAS4[ch.sel("extras", extras, 4)]
    except ch.Prune:
        return True
    if ch.excluded(v):
        return True
    o = run_history(v["top"], v["bottom"], v["tkind"], v["tobj"], v["ntests"], v["o1"], v["d1"], v["o2"], v["d2"],
                    v["extras"])
    ch.LAST.update(o)
    return ch.finish(not o["problems"], v, nontrivial=True)


EXTRAS4 = [0, 31, 7, 24]


def _shards(tier):
    out = []
    for top in range(7):
        for b in range(3):
            for tk in range(6):
                if tier == "quick":
                    out.append(({"top": top, "bottom": b, "tkind": tk, "ntests": 1, "mode": 0}, 900))
                    out.append(({"top": top, "bottom": b, "tkind": tk, "ntests": 2, "mode": 0, "extras": 0}, 900))
                else:
                    out.append(({"top": top, "bottom": b, "tkind": tk, "ntests": 1, "mode": 1}, 1800))
                    for ex in (0, 7, 31, 14):
                        out.append(({"top": top, "bottom": b, "tkind": tk, "ntests": 2, "mode": 1, "extras": ex}, 1800))
    return out


def _rh(top, bottom, tkind, tobj, ntests, o1, d1, o2, d2, extras, mode):
    if not mode:
        extras = EXTRAS4[extras % 4]
        d2 = d1
    return run_history(top, bottom, tkind, tobj, ntests, o1, d1, o2, d2, extras)


HARNESSES = [
    Harness("hist", h_hist, _shards,
            bounds={"quick": "adapter stacks of depth 1..2 (top in {none, ExtendedToOriginalDecorator, MultiTestResult fan-out 1 / 2, "
                             "TestResultDecorator, Tagger adding a tag, Tagger removing a tag} over bottom in {ExtendedToOriginalDecorator, MultiTestResult fan-out 1 / 2}) x "
                             "6 target flavours (2.6, 2.7, extended, Twisted doubles, testtools.TestResult, TestByTestResult) x test object "
                             "{TestCase, PlaceHolder, ErrorHolder} x histories of one test (6 outcomes x exc_info|details x 4 "
                             "combinations of startTestRun/stopTestRun, time, tags, stop, progress+done: none, all, run+time+tags, "
                             "stop+progress) and of two tests (36 outcome pairs, both given as exc_info or both as details)",
                    "thorough": "one test x all 32 extras combinations; two tests x 4 forms x extras {none, run+time+tags, all, time+tags+stop}"},
            rule="every path non-trivial (one stack x target x history)",
            twin_fix={"top": 1, "bottom": 0, "tkind": 0, "ntests": 1, "mode": 0},
            fidelity=lambda seed: [(t, b, k, o, 1, oc, d, 0, False, 7, 1) for t in (0, 3, 5) for b in (0, 2) for k in range(6)
                                   for o in (0, 1) for oc in (1, 3, 5) for d in (False, True)],
            observe=lambda *a: (lambda o: o["problems"])(_rh(*a)), describe=lambda *a: _rh(*a)),
]
OUTSIDE = ["adapter stacks deeper than 2; TestResultDecorator/Tagger directly over a non-extended target (they require the extended protocol)",
           "histories with more than two tests"]
