"""C17 - tags are scoped: test-local changes never leak, run-level changes persist."""
import threading

from testtools import PlaceHolder
from testtools.testresult import doubles
from testtools.testresult.real import (ExtendedToOriginalDecorator, ExtendedToStreamDecorator, MultiTestResult,
                                       StreamToExtendedDecorator, Tagger, TestResult,
                                       ThreadsafeForwardingResult)

from vf import ch
from vf.driver import Harness

PROPERTY = "C17"
# history alphabet
OPS = ["startTestRun", "startTest", "tags(+a)", "tags(-a)", "tags(+b)", "tags(-b)", "addSkip+stopTest (no startTest)",
       "outcome+stopTest"]
TAGOPS = {2: ({"a"}, set()), 3: (set(), {"a"}), 4: ({"b"}, set()), 5: (set(), {"b"})}
REPORTERS = ["TestResult", "ETOD(extended)", "ETOD(py26)", "ThreadsafeForwardingResult", "MultiTestResult",
             "Tagger(+x)", "ExtendedToStream->StreamToExtended", "ETOD(py27)"]


class TagLoggingExtended(doubles.ExtendedTestResult):
    """Extended double that records the tags it considers current at each outcome."""

    def __init__(self):
        super().__init__()
        self.seen = []

    def stopTest(self, test):
        # a well-behaved extended result: a stopTest without startTest leaves the run-level scope alone
        if self._tags.parent is None:
            self._events.append(("stopTest", test))
            return
        super().stopTest(test)

    def _note(self, test):
        self.seen.append((test.id(), set(self.current_tags)))

    def addSuccess(self, test, details=None):
        self._note(test)
        super().addSuccess(test, details=details)

    def addSkip(self, test, reason=None, details=None):
        self._note(test)
        super().addSkip(test, reason, details=details)

    def addFailure(self, test, err=None, details=None):
        self._note(test)
        super().addFailure(test, err, details=details)


class RefTags:
    def __init__(self):
        self.g = set()
        self.local = None

    def start_run(self):
        self.g = set()
        self.local = None

    def start_test(self):
        self.local = set(self.g)

    def stop_test(self):
        self.local = None

    def tags(self, new, gone):
        tgt = self.local if self.local is not None else self.g
        tgt |= new
        tgt -= gone

    def current(self):
        return set(self.local if self.local is not None else self.g)


def make_reporter(kind):
    """Returns (reporter, wrapped extended result or None, stream sink or None, extra per-test tags)."""
    if kind == 0:
        return TestResult(), None, None, set()
    if kind == 1:
        w = TagLoggingExtended()
        return ExtendedToOriginalDecorator(w), w, None, set()
    if kind == 2:
        return ExtendedToOriginalDecorator(doubles.Python26TestResult()), None, None, set()
    if kind == 3:
        w = TagLoggingExtended()
        return ThreadsafeForwardingResult(w, threading.Semaphore(1)), w, None, set()
    if kind == 4:
        w = TagLoggingExtended()
        return MultiTestResult(w, TestResult()), w, None, set()
    if kind == 5:
        w = TagLoggingExtended()
        return Tagger(w, iter(["x"]), iter(())), w, None, {"x"}      # any iterable, also a one-shot one
    if kind == 6:
        w = TagLoggingExtended()
        sink = doubles.StreamResult()
        from testtools.testresult.real import CopyStreamResult
        return ExtendedToStreamDecorator(CopyStreamResult([sink, StreamToExtendedDecorator(w)])), w, sink, set()
    if kind == 7:
        return ExtendedToOriginalDecorator(doubles.Python27TestResult()), None, None, set()
    raise ValueError(kind)


def valid(history):
    in_test = False
    for op in history:
        if in_test:
            if op in (0, 1, 6):
                return False
            if op == 7:
                in_test = False
        else:
            if op == 7:
                return False
            if op == 1:
                in_test = True
    return True


def run_history(kind, history):
    rep, wrapped, sink, extra = make_reporter(kind)
    ref = RefTags()
    problems = []
    expected_seen = []
    n = 0
    tid = None
    test = None
    steps = []
    # every run starts with startTestRun (the reporter may also be used without it: history decides)
    for op in history:
        steps.append(OPS[op])
        try:
            if op == 0:
                rep.startTestRun()
                ref.start_run()
            elif op == 1:
                n += 1
                test = PlaceHolder("t%d" % n)
                rep.startTest(test)
                ref.start_test()
                ref.tags(set(extra), set())
            elif op in TAGOPS:
                new, gone = TAGOPS[op]
                rep.tags(set(new), set(gone))
                ref.tags(set(new), set(gone))
            elif op == 6:
                n += 1
                t = PlaceHolder("t%d" % n)
                expected_seen.append((t.id(), ref.current()))
                rep.addSkip(t, "why")
                rep.stopTest(t)
            elif op == 7:
                expected_seen.append((test.id(), ref.current()))
                rep.addSuccess(test)
                rep.stopTest(test)
                ref.stop_test()
        except Exception as e:
            problems.append("%s raised %s: %s" % (OPS[op], type(e).__name__, e))
            break
        # current_tags after every call
        if kind != 5 or True:
            try:
                cur = set(rep.current_tags)
            except Exception as e:
                problems.append("current_tags after %s raised %s: %s" % (" ; ".join(steps), type(e).__name__, e))
                break
            want = ref.current()
            if kind == 3 and op == 6:
                pass
            if cur != want:
                problems.append("current_tags after [%s] is %r, expected %r" % (" ; ".join(steps), sorted(cur), sorted(want)))
                break
    if wrapped is not None and not problems:
        if kind == 6:
            try:
                rep.stopTestRun()
            except Exception as e:
                problems.append("stopTestRun raised %r" % (e,))
        if kind == 3:
            # ThreadsafeForwardingResult forwards a test at its outcome
            pass
        done = {i for i, _ in expected_seen}
        got = [x for x in wrapped.seen if x[0] in done]     # a test left unfinished is flushed as incomplete
        if got != expected_seen:
            problems.append("wrapped result observed %r at the outcomes, expected %r" % (got, expected_seen))
    if sink is not None and not problems:
        finals = [(e.test_id, set(e.test_tags or ())) for e in sink._events
                  if e[0] == "status" and e.test_status in ("success", "skip")]
        if finals != expected_seen:
            problems.append("final status events carried %r, expected %r" % (finals, expected_seen))
    return {"history": steps, "reporter": REPORTERS[kind], "problems": problems}


def h_hist(kind: int, n: int, h0: int, h1: int, h2: int, h3: int, h4: int, h5: int, h6: int, pre_run: bool) -> bool:
    """
    pre: 0 <= kind < 8 and 0 <= n <= 7
    pre: 0 <= h0 < 8 and 0 <= h1 < 8 and 0 <= h2 < 8 and 0 <= h3 < 8 and 0 <= h4 < 8 and 0 <= h5 < 8 and 0 <= h6 < 8
    post: _
    """
    try:
        k = ch.sel("kind", kind, 8)
        nn = ch.sel("n", n, 8)
        raw = [h0, h1, h2, h3, h4, h5, h6]
        hist = []
        in_test = False
        for i in range(nn):
            op = ch.sel("h%d" % i, raw[i], 8)
            if in_test and op in (0, 1, 6):
                return True
            if not in_test and op == 7:
                return True
            if op == 1:
                in_test = True
            if op == 7:
                in_test = False
            hist.append(op)
        pr = ch.cbool(pre_run) or k == 6      # a stream converter is only defined after startTestRun
    except ch.Prune:
        return True
    full = ([0] if pr else []) + hist
    v = dict(kind=k, history=tuple(full))
    v["skip_pair"] = 6 in full
    v["start_run_after_tags"] = _run_after_global_tags(full)
    if ch.excluded(v):
        return True
    o = run_history(k, full)
    ch.LAST.update(o)
    return ch.finish(not o["problems"], v, nontrivial=any(op in TAGOPS for op in hist) and len(hist) >= 2)


def _run_after_global_tags(full):
    seen_tag_outside = False
    in_test = False
    for op in full:
        if op == 1:
            in_test = True
        elif op == 7:
            in_test = False
        elif op in TAGOPS and not in_test:
            seen_tag_outside = True
        elif op == 0 and seen_tag_outside:
            return True
    return False


# --- PlaceHolder applies and removes its tags around the test ---------------------------------
def run_placeholder(kind, tagmask, gmask):
    rep, wrapped, sink, extra = make_reporter(kind)
    tags = {t for i, t in enumerate(["a", "b"]) if tagmask & (1 << i)}
    g = {t for i, t in enumerate(["a", "c"]) if gmask & (1 << i)}
    rep.startTestRun()
    rep.tags(set(g), set())
    ph = PlaceHolder("p", tags=tags)
    ph.run(rep)
    problems = []
    after = set(rep.current_tags)
    want_after = g - tags        # PlaceHolder removes its tags again after the test (documented behaviour)
    if not (after == g or after == want_after):
        problems.append("current_tags after the placeholder %r, run-level tags were %r" % (sorted(after), sorted(g)))
    if wrapped is not None:
        if kind == 6:
            rep.stopTestRun()
        want = [("p", g | tags | extra)]
        if wrapped.seen != want:
            problems.append("wrapped result observed %r, expected %r" % (wrapped.seen, want))
    return {"problems": problems}


def h_placeholder(kind: int, tagmask: int, gmask: int) -> bool:
    """
    pre: 0 <= kind < 8 and 0 <= tagmask < 4 and 0 <= gmask < 4
    post: _
    """
    v = dict(kind=ch.sel("kind", kind, 8), tagmask=ch.sel("tagmask", tagmask, 4), gmask=ch.sel("gmask", gmask, 4))
    o = run_placeholder(v["kind"], v["tagmask"], v["gmask"])
    ch.LAST.update(o)
    return ch.finish(not o["problems"], v, nontrivial=v["tagmask"] != 0)


def _shards(tier):
    out = []
    top = 4 if tier == "quick" else 5
    for k in range(8):
        out += [({"kind": k, "n": n}, 600) for n in range(top)]
        if tier == "quick":
            out += [({"kind": k, "n": top, "h0": h}, 1800) for h in range(7)]
        else:
            out += [({"kind": k, "n": 5, "h0": h, "h1": g}, 3000) for h in range(7) for g in range(8)]
            if k in (0, 3):      # TestResult and ThreadsafeForwardingResult also at 6 calls
                out += [({"kind": k, "n": 6, "h0": h, "h1": g, "h2": f}, 3000) for h in range(7) for g in range(8) for f in range(8)]
    return out


HARNESSES = [
    Harness("hist", h_hist, _shards,
            bounds={"quick": "every well-formed history of <= 4 calls (optionally preceded by startTestRun) over {startTestRun, startTest, "
                             "tags(+a), tags(-a), tags(+b), tags(-b), startTest-less addSkip+stopTest, outcome+stopTest} x 8 reporters "
                             "(TestResult, ExtendedToOriginalDecorator over extended/2.6/2.7 doubles, ThreadsafeForwardingResult, "
                             "MultiTestResult, Tagger, ExtendedToStreamDecorator feeding StreamToExtendedDecorator)",
                    "thorough": "histories of <= 5 calls (<= 6 for TestResult and ThreadsafeForwardingResult)"},
            rule="non-trivial = at least 2 calls with a tags() call", twin_fix={"kind": 0, "n": 3},
            fidelity=lambda seed: [(k, 4, 2, 1, 4, 7, 0, 0, 0, True) for k in range(8)] + [(k, 3, 1, 3, 7, 0, 0, 0, 0, True) for k in range(8)],
            observe=lambda kind, n, h0, h1, h2, h3, h4, h5, h6, pr: run_history(kind, ([0] if pr or kind == 6 else []) + [h0, h1, h2, h3, h4, h5, h6][:n]),
            describe=lambda kind, n, h0, h1, h2, h3, h4, h5, h6, pr: run_history(kind, ([0] if pr or kind == 6 else []) + [h0, h1, h2, h3, h4, h5, h6][:n])),
    Harness("placeholder", h_placeholder, lambda tier: [({}, 600)],
            bounds={"quick": "PlaceHolder with tags subset of {a,b} replayed into each of the 8 reporters with run-level tags subset of {a,c}"},
            rule="non-trivial = the placeholder has tags", describe=run_placeholder),
]
OUTSIDE = ["histories longer than the bound; more than two distinct tags (unbounded tag sets are the subject of the E2 lemmas)"]


def e2_lemmas(tier):
    """E2 (zproxy): the same real functions on proxies carrying SMT terms - unbounded tag sets / strings."""
    from vf import e2
    return e2.summarise(e2.c17_lemmas())


def e2_replay(name, model):
    from vf import e2
    for l in e2.c17_lemmas():
        if l["name"] == name:
            return l["verdict"] != "REFUTED", l
    return True, {"note": "lemma not found"}
