"""C07 - mismatches are always describable; assertThat/expectThat report them faithfully;
text_repr output evaluates back to the original."""
import ast
import os
import tarfile
import tempfile
import warnings

import testtools
from testtools import matchers as M
from testtools.assertions import assert_that
from testtools.compat import text_repr
from testtools.content import text_content
from testtools.matchers import MismatchError
from testtools.matchers._impl import Mismatch

from vf import ch, lifecycle as L, programs as P
from vf.driver import Harness

PROPERTY = "C07"

# --- text_repr -------------------------------------------------------------------------------
# 12 character classes chosen to hit every branch of the escaping rules
SCLASS = ["'", '"', "\\", "\n", "a", "\x85", "\x00", "é", "☃", "́", "\U0001F600", "͸"]
BCLASS = [b"'", b'"', b"\\", b"\n", b"a", b"\x00", b"\xe9", b"\x7f"]


def run_textrepr(is_bytes, idx, ml):
    alpha = BCLASS if is_bytes else SCLASS
    s = (b"" if is_bytes else "").join(alpha[i] for i in idx)
    multiline = [None, False, True][ml]
    problems = []
    try:
        r = text_repr(s, multiline=multiline)
    except Exception as e:
        return {"input": repr(s), "problems": ["text_repr raised %r" % (e,)]}
    if not isinstance(r, str):
        problems.append("text_repr returned %s" % type(r).__name__)
    else:
        try:
            back = ast.literal_eval(r)
        except Exception as e:
            back = None
            problems.append("output %r does not evaluate: %r" % (r, e))
        if not problems and back != s:
            problems.append("output %r evaluates to %r, not %r" % (r, back, s))
    return {"input": repr(s), "multiline": multiline, "output": r, "problems": problems}


def h_textrepr(is_bytes: bool, n: int, c0: int, c1: int, c2: int, c3: int, c4: int, ml: int,
               red: int) -> bool:
    """
    pre: 0 <= n <= 5 and 0 <= ml < 3 and 0 <= red < 2
    pre: 0 <= c0 < 12 and 0 <= c1 < 12 and 0 <= c2 < 12 and 0 <= c3 < 12 and 0 <= c4 < 12
    post: _
    """
    try:
        ib = ch.cbool(is_bytes) if "is_bytes" not in ch.FIX else bool(ch.FIX["is_bytes"])
        nn = ch.sel("n", n, 6)
        rd = ch.sel("red", red, 2)
        # reduced alphabet (first 5 classes: both quotes, backslash, newline, letter) for long strings
        na = 5 if rd else (len(BCLASS) if ib else len(SCLASS))
        raw = [c0, c1, c2, c3, c4]
        idx = [ch.sel("c%d" % k, raw[k], na) for k in range(nn)]
        m = ch.sel("ml", ml, 3)
    except ch.Prune:
        return True
    o = run_textrepr(ib, idx, m)
    v = dict(is_bytes=ib, idx=tuple(idx), ml=m)
    return ch.finish(not o["problems"], v, nontrivial=nn >= 1)


# --- stock matchers ---------------------------------------------------------------------------
_SCRATCH = {}


def scratch():
    """A prepared scratch directory for filesystem leaves (outside /repo and /verif)."""
    if not _SCRATCH:
        d = tempfile.mkdtemp(prefix="vf_c07_")
        os.mkdir(os.path.join(d, "dir"))
        with open(os.path.join(d, "dir", "x"), "w") as f:
            f.write("x")
        with open(os.path.join(d, "file"), "w") as f:
            f.write("hello é")
        os.chmod(os.path.join(d, "file"), 0o644)
        with open(os.path.join(d, "fé"), "w") as f:
            f.write("")
        with tarfile.open(os.path.join(d, "t.tar"), "w") as t:
            t.add(os.path.join(d, "file"), arcname="file")
        _SCRATCH["d"] = d
        import atexit
        import shutil
        pid = os.getpid()
        atexit.register(lambda: os.getpid() == pid and shutil.rmtree(d, True))
    return _SCRATCH["d"]


def _warn():
    warnings.warn("old", DeprecationWarning)


def _nowarn():
    return 1


def _raise_value():
    raise ValueError("v")


class Attr:
    x = 1
    y = "é"


GENERIC = [1, "abc", "é☃", b"\xe9\xff", "a\x00\x1b[0m", "line1\nline2", (1, "a"), [1, 2], {"a": 1}, None,
           "'\"\\"]
TEXTS = ["abc", "é☃", "a\x00\x1b[0m", "line1\nline2", "", "'\"\\", "xabc"]
BYTESV = [b"abc", b"\xe9\xff", b"", b"a\nb"]
SEQS = [[], [1], [1, 2], [2, 1, 1], ["é", b"\xff"], (1, 2)]
DICTS = [{}, {"a": 1}, {"a": 2, "b": 1}, {"é": "é"}, {"a": 1, "b": 2, "c": 3}]
CALLS = [_warn, _nowarn, _raise_value]
EXCINFOS = None


def excinfos():
    global EXCINFOS
    if EXCINFOS is None:
        out = []
        for e in (ValueError("é"), KeyError("k"), ValueError("a", 1)):
            try:
                raise e
            except Exception:
                import sys
                out.append(sys.exc_info())
        out.append("not a tuple")
        EXCINFOS = out
    return EXCINFOS


def paths():
    d = scratch()
    return [os.path.join(d, "file"), os.path.join(d, "dir"), os.path.join(d, "missing"),
            os.path.join(d, "fé"), os.path.join(d, "t.tar")]


def catalogue():
    """name -> list of (constructor thunk, matchee alphabet thunk). Built from
    testtools.matchers.__all__ at run time: a stock matcher without an entry is reported."""
    d = scratch()
    G, T = (lambda: GENERIC), (lambda: TEXTS)
    cat = {
        "AfterPreprocessing": [(lambda: M.AfterPreprocessing(repr, M.Equals("x")), G),
                               (lambda: M.AfterPreprocessing(str, M.Contains("é"), annotate=False), G)],
        "AllMatch": [(lambda: M.AllMatch(M.Equals(1)), lambda: SEQS)],
        "Always": [(lambda: M.Always(), G)],
        "Annotate": [(lambda: M.Annotate("nöte", M.Equals(1)), G)],
        "AnyMatch": [(lambda: M.AnyMatch(M.Equals(1)), lambda: SEQS)],
        "Contains": [(lambda: M.Contains("é"), lambda: TEXTS + SEQS + [5]), (lambda: M.Contains(b"\xe9"), lambda: BYTESV)],
        "ContainsAll": [(lambda: M.ContainsAll([1, 2]), lambda: SEQS)],
        "ContainedByDict": [(lambda: M.ContainedByDict({"a": M.Equals(1)}), lambda: DICTS)],
        "ContainsDict": [(lambda: M.ContainsDict({"a": M.Equals(1), "é": M.Never()}), lambda: DICTS)],
        "DirContains": [(lambda: M.DirContains(["x"]), paths), (lambda: M.DirContains(matcher=M.Contains("y")), paths)],
        "DirExists": [(lambda: M.DirExists(), paths)],
        "DocTestMatches": [(lambda: M.DocTestMatches("a...c\n", 8), T), (lambda: M.DocTestMatches("é"), T)],
        "EndsWith": [(lambda: M.EndsWith("c"), T), (lambda: M.EndsWith(b"\xff"), lambda: BYTESV), (lambda: M.EndsWith("☃"), T)],
        "Equals": [(lambda: M.Equals("é☃"), G), (lambda: M.Equals(b"\xe9\xff\n"), G), (lambda: M.Equals("a\nb" * 30), G),
                   (lambda: M.Equals((1, "a")), G)],
        "FileContains": [(lambda: M.FileContains("hello é"), lambda: paths()[:1] + paths()[2:4]),
                         (lambda: M.FileContains(matcher=M.Contains("zz")), lambda: paths()[:1] + paths()[2:4])],
        "FileExists": [(lambda: M.FileExists(), paths)],
        "GreaterThan": [(lambda: M.GreaterThan(5), lambda: [1, 9, 5])],
        "HasLength": [(lambda: M.HasLength(2), lambda: SEQS + TEXTS)],
        "HasPermissions": [(lambda: M.HasPermissions("0644"), lambda: paths()[:2]), (lambda: M.HasPermissions("0755"), lambda: paths()[:2])],
        "Is": [(lambda: M.Is(None), G)],
        "IsDeprecated": [(lambda: M.IsDeprecated(M.Contains("old")), lambda: CALLS[:2]), (lambda: M.IsDeprecated(M.Contains("new")), lambda: CALLS[:2])],
        "IsInstance": [(lambda: M.IsInstance(int), G), (lambda: M.IsInstance(str, bytes), G)],
        "KeysEqual": [(lambda: M.KeysEqual("a"), lambda: DICTS), (lambda: M.KeysEqual({"é": 1}), lambda: DICTS)],
        "LessThan": [(lambda: M.LessThan(5), lambda: [1, 9, 5])],
        "MatchesAll": [(lambda: M.MatchesAll(M.Equals(1), M.Equals("é")), G), (lambda: M.MatchesAll(M.Never(), first_only=True), G)],
        "MatchesAny": [(lambda: M.MatchesAny(M.Equals(1), M.Equals("é")), G)],
        "MatchesDict": [(lambda: M.MatchesDict({"a": M.Equals(1)}), lambda: DICTS)],
        "MatchesException": [(lambda: M.MatchesException(ValueError), excinfos), (lambda: M.MatchesException(ValueError("é")), excinfos),
                             (lambda: M.MatchesException(ValueError, "z+"), excinfos)],
        "MatchesListwise": [(lambda: M.MatchesListwise([M.Equals(1), M.Equals(2)]), lambda: SEQS),
                            (lambda: M.MatchesListwise([M.Equals(1)], first_only=True), lambda: SEQS)],
        "MatchesPredicate": [(lambda: M.MatchesPredicate(lambda x: x == 1, "%s is not one"), G)],
        "MatchesPredicateWithParams": [(lambda: M.MatchesPredicateWithParams(lambda x, y: x == y, "{0} is not {1}")(1), G),
                                       (lambda: M.MatchesPredicateWithParams(lambda x, y: x == y, "{0} is not {1}", "IsEq")("é"), G)],
        "MatchesRegex": [(lambda: M.MatchesRegex("a.c"), T), (lambda: M.MatchesRegex("é\\n", 8 | 2), T),
                         (lambda: M.MatchesRegex(b"\xe9."), lambda: BYTESV)],
        "MatchesSetwise": [(lambda: M.MatchesSetwise(M.Equals(1), M.Equals(2)), lambda: SEQS), (lambda: M.MatchesSetwise(), lambda: SEQS)],
        "MatchesStructure": [(lambda: M.MatchesStructure(x=M.Equals(2), y=M.Equals("é")), lambda: [Attr(), Attr]),
                             (lambda: M.MatchesStructure.byEquality(x=1), lambda: [Attr()])],
        "Never": [(lambda: M.Never(), G)],
        "NotEquals": [(lambda: M.NotEquals("é☃"), G), (lambda: M.NotEquals(1), G)],
        "Not": [(lambda: M.Not(M.Equals(1)), G), (lambda: M.Not(M.Always()), G)],
        "PathExists": [(lambda: M.PathExists(), paths)],
        "Raises": [(lambda: M.Raises(), lambda: CALLS), (lambda: M.Raises(M.MatchesException(KeyError)), lambda: CALLS)],
        "raises": [(lambda: M.raises(ValueError), lambda: CALLS), (lambda: M.raises(KeyError("k")), lambda: CALLS)],
        "SameMembers": [(lambda: M.SameMembers([1, 2]), lambda: SEQS)],
        "SamePath": [(lambda: M.SamePath(os.path.join(d, "file")), paths), (lambda: M.SamePath("é"), paths)],
        "StartsWith": [(lambda: M.StartsWith("a"), T), (lambda: M.StartsWith(b"\xe9"), lambda: BYTESV), (lambda: M.StartsWith("é"), T)],
        "TarballContains": [(lambda: M.TarballContains(["file"]), lambda: paths()[4:]), (lambda: M.TarballContains(["é"]), lambda: paths()[4:])],
        "Warnings": [(lambda: M.Warnings(), lambda: CALLS[:2]), (lambda: M.Warnings(M.HasLength(2)), lambda: CALLS[:2])],
        "WarningMessage": [(lambda: M.WarningMessage(DeprecationWarning, message=M.Equals("old")),
                            lambda: [warnings.WarningMessage("old", DeprecationWarning, "f.py", 3),
                                     warnings.WarningMessage("é", UserWarning, "f.py", 3)])],
    }
    return cat


def all_cases():
    cat = catalogue()
    names = sorted(M.__all__)
    cases = []
    missing = []
    for n in names:
        if n not in cat:
            missing.append(n)
            continue
        for ci, (ctor, alpha) in enumerate(cat[n]):
            for mi in range(len(alpha())):
                cases.append((n, ci, mi))
    return cases, missing


_CASES = []


def cases():
    if not _CASES:
        _CASES.extend(all_cases())
    return _CASES[0], _CASES[1]


def run_stock(k, verbose, annotate):
    cs, missing = cases()
    name, ci, mi = cs[k]
    ctor, alpha = catalogue()[name][ci]
    matchee = alpha()[mi]
    message = "ànnotation" if annotate else ""
    problems = []
    try:
        matcher = ctor()
    except Exception as e:
        return {"case": (name, ci, mi), "problems": ["HARNESS: constructor raised %r" % (e,)]}
    try:
        s = str(matcher)
        if not isinstance(s, str):
            problems.append("str(matcher) returned %s" % type(s).__name__)
    except Exception as e:
        problems.append("str(%s) raised %s: %s" % (name, type(e).__name__, e))
        s = None
    try:
        mm = matcher.match(matchee)
    except Exception as e:
        problems.append("match(%r) raised %s: %s" % (matchee, type(e).__name__, e))
        return {"case": (name, ci, mi), "matcher": s, "problems": problems}
    if mm is not None:
        try:
            dsc = mm.describe()
            if not isinstance(dsc, str):
                problems.append("describe() returned %s" % type(dsc).__name__)
        except Exception as e:
            problems.append("describe() raised %s: %s" % (type(e).__name__, e))
        try:
            det = mm.get_details()
            if not isinstance(det, dict):
                problems.append("get_details() returned %s" % type(det).__name__)
        except Exception as e:
            problems.append("get_details() raised %s: %s" % (type(e).__name__, e))
        if s is not None:
            try:
                es = str(MismatchError(matchee, matcher, mm, verbose))
                if not isinstance(es, str):
                    problems.append("str(MismatchError) returned %s" % type(es).__name__)
            except Exception as e:
                problems.append("str(MismatchError(verbose=%s)) raised %s: %s" % (verbose, type(e).__name__, e))
    # assertThat / assert_that raise exactly when match() returned a mismatch
    if s is not None or not verbose:
        for label, fn in (("assert_that", lambda: assert_that(matchee, matcher, message, verbose)),
                          ("assertThat", lambda: _Case("test").assertThat(matchee, matcher, message, verbose))):
            raised = None
            try:
                fn()
            except MismatchError as e:
                raised = e
                try:
                    str(e)
                except Exception as e2:
                    if s is not None:
                        problems.append("str() of the raised MismatchError raised %r" % (e2,))
            except Exception as e:
                problems.append("%s raised %s: %s instead of MismatchError" % (label, type(e).__name__, e))
                continue
            if (raised is not None) != (mm is not None):
                problems.append("%s raised=%s but match() mismatch=%s" % (label, raised is not None, mm is not None))
        # expectThat never raises; outcome failure iff mismatch
        log = []

        def body(case):
            case.expectThat(matchee, matcher, message, verbose)
            log.append("after-expect")

        case = P.make_case(P.RET, P.RET, P.RET, [], log, hooks={"body": body})
        names, exc, _ = L.run_once(case, P.FEXT)
        okb, seen = L.outcome_of(names, P.FEXT)
        if "after-expect" not in log and s is not None:
            problems.append("expectThat raised inside the test: %r" % (names,))
        want = "addFailure" if mm is not None else "addSuccess"
        if s is not None and (not okb or seen != want):
            problems.append("test using expectThat reported %r, expected %s" % (names, want))
    return {"case": (name, ci, mi), "matcher": s, "matchee": repr(matchee), "mismatch": mm is not None,
            "problems": problems}


class _Case(testtools.TestCase):
    def test(self):
        pass


BLK = 24


def h_stock(blk: int, j: int, verbose: bool, annotate: bool) -> bool:
    """
    pre: 0 <= blk < 40 and 0 <= j < 24
    post: _
    """
    cs, missing = cases()
    try:
        b = ch.sel("blk", blk, (len(cs) + BLK - 1) // BLK)
        jj = ch.sel("j", j, BLK)
    except ch.Prune:
        return True
    kk = b * BLK + jj
    if kk >= len(cs):
        return True
    vb, an = ch.cbool(verbose), ch.cbool(annotate)
    o = run_stock(kk, vb, an)
    v = dict(case=cs[kk], verbose=vb, annotate=an)
    v["problems"] = o["problems"]
    if ch.excluded(v):
        return True
    del v["problems"]
    return ch.finish(not o["problems"] and not missing, v, nontrivial=True)


def run_stock_bj(blk, j, verbose, annotate):
    return run_stock(blk * BLK + j, verbose, annotate)


# --- details of a mismatch are attached under non-clobbering names ----------------------------
class _DetailMatcher:
    def __init__(self, names):
        self.names = names

    def __str__(self):
        return "DetailMatcher(%r)" % (self.names,)

    def match(self, x):
        return Mismatch("nope", {n: text_content("mismatch-%s" % n) for n in self.names})


DNAMES = ["x", "traceback", "Failed expectation", "é", "x-1"]


def run_details(pre0, pre1, m0, m1, use_expect, twice):
    pre = [DNAMES[i] for i in sorted({pre0, pre1})]
    mnames = [DNAMES[i] for i in sorted({m0, m1})]
    log = []

    def body(case):
        for n in pre:
            case.addDetail(n, text_content("user-%s" % n))
        for _ in range(2 if twice else 1):
            if use_expect:
                case.expectThat(1, _DetailMatcher(mnames))
            else:
                try:
                    case.assertThat(1, _DetailMatcher(mnames))
                except MismatchError:
                    if not twice:
                        raise
        if twice and not use_expect:
            case.assertThat(1, _DetailMatcher([]))

    case = P.make_case(P.RET, P.RET, P.RET, [], log, hooks={"body": body})
    result, events = P.make_result(P.FEXT)
    case.run(result)
    outcome = [e for e in events if e[0].startswith("add")]
    problems = []
    if len(outcome) != 1 or outcome[0][0] != "addFailure":
        problems.append("expected one addFailure, got %r" % ([e[0] for e in events],))
        return {"problems": problems}
    details = outcome[0][2]
    texts = sorted(c.as_text() for c in details.values() if c.content_type.type == "text"
                   and c.content_type.subtype == "plain")
    want = ["user-%s" % n for n in pre] + ["mismatch-%s" % n for n in mnames] * (2 if twice else 1)
    for w in set(want):
        if texts.count(w) < want.count(w):
            problems.append("detail %r delivered %d times, expected %d (keys %r)" % (
                w, texts.count(w), want.count(w), sorted(details)))
    return {"keys": sorted(details), "problems": problems}


def h_details(pre0: int, pre1: int, m0: int, m1: int, use_expect: bool, twice: bool) -> bool:
    """
    pre: 0 <= pre0 < 5 and 0 <= pre1 < 5 and 0 <= m0 < 5 and 0 <= m1 < 5
    post: _
    """
    v = dict(pre0=ch.sel("pre0", pre0, 5), pre1=ch.sel("pre1", pre1, 5), m0=ch.sel("m0", m0, 5),
             m1=ch.sel("m1", m1, 5), use_expect=ch.cbool(use_expect), twice=ch.cbool(twice))
    o = run_details(v["pre0"], v["pre1"], v["m0"], v["m1"], v["use_expect"], v["twice"])
    return ch.finish(not o["problems"], v, nontrivial=True)


# --- a failed expectThat makes the test fail once it has finished, whatever else happens afterwards ---------
AFTER = [P.RET, P.SKIP, P.XFAIL, P.SKIPSUB, P.FAIL, P.ERROR]


def run_expect_then(where, kind, flav):
    """expectThat mismatches in the body; afterwards stage `where` (0 body, 1 tearDown, 2 cleanup) behaves as `kind`."""
    log = []
    from testtools.matchers import Equals

    def body(case):
        case.expectThat(1, Equals(2))

    case = P.make_case(P.RET, AFTER[kind] if where == 0 else P.RET, AFTER[kind] if where == 1 else P.RET,
                       [AFTER[kind] if where == 2 else P.RET], log, hooks={"body": body})
    names, exc, res = L.run_once(case, flav)
    okb, seen = L.outcome_of(names, flav)
    problems = []
    bad = {L.seen_as(o, flav) for o in ("failure", "error")}
    if not okb or seen not in bad:
        problems.append("expectThat mismatched, then %s in stage %d: the test was reported as %r" % (P.KIND_NAMES[AFTER[kind]], where, names))
    if exc is not None:
        problems.append("run() raised %r" % (exc,))
    return {"names": names, "problems": problems}


def h_expect_then(where: int, kind: int, flav: int) -> bool:
    """
    pre: 0 <= where < 3 and 0 <= kind < 6 and 0 <= flav < 7
    post: _
    """
    v = dict(where=ch.sel("where", where, 3), kind=ch.sel("kind", kind, 6), flav=ch.sel("flav", flav, 7))
    o = run_expect_then(v["where"], v["kind"], v["flav"])
    ch.LAST.update(o)
    return ch.finish(not o["problems"], v, nontrivial=True)


def _tr_shards(tier):
    out = []
    for ib in (0, 1):
        if tier == "quick":
            out += [({"is_bytes": ib, "red": 0, "n": n}, 600) for n in range(3)]
            out += [({"is_bytes": ib, "red": 0, "n": 3, "c0": c}, 600) for c in range(8 if ib else 12)]
            out += [({"is_bytes": ib, "red": 1, "n": 4}, 600)]
        else:
            out += [({"is_bytes": ib, "red": 0, "n": n}, 600) for n in range(3)]
            out += [({"is_bytes": ib, "red": 0, "n": 3, "c0": c}, 900) for c in range(8 if ib else 12)]
            out += [({"is_bytes": ib, "red": 0, "n": 4, "c0": c, "c1": d}, 1800) for c in range(8 if ib else 12)
                    for d in range(8 if ib else 12)]
            out += [({"is_bytes": ib, "red": 1, "n": 5, "c0": c}, 1800) for c in range(5)]
    return out


def _stock_shards(tier):
    n = len(cases()[0])
    return [({"blk": b}, 600) for b in range((n + BLK - 1) // BLK)]


HARNESSES = [
    Harness("textrepr", h_textrepr, _tr_shards,
            bounds={"quick": "str over 12 character classes (both quotes, backslash, newline, printable ASCII, C1 control, NUL, "
                             "Latin-1, BMP printable, combining mark, astral, unassigned) and bytes over 8 classes: every string of "
                             "length <= 3, and length 4 over the 5 escaping-relevant classes; multiline in {None, False, True}",
                    "thorough": "every string of length <= 4 over the full alphabets, length 5 over the 5 escaping-relevant classes"},
            rule="non-trivial = non-empty input", twin_fix={"is_bytes": 0, "red": 0, "n": 2},
            fidelity=lambda seed: [(b, 2, c, d, 0, 0, 0, m, 0) for b in (False, True) for c in range(8) for d in (0, 3) for m in range(3)],
            observe=lambda ib, n, c0, c1, c2, c3, c4, ml, red: run_textrepr(ib, [c0, c1, c2, c3, c4][:n], ml)["output"],
            describe=lambda ib, n, c0, c1, c2, c3, c4, ml, red: run_textrepr(ib, [c0, c1, c2, c3, c4][:n], ml)),
    Harness("stock", h_stock, _stock_shards,
            bounds={"quick": "every name in testtools.matchers.__all__ (read at run time) with 1-4 constructor variants each, "
                             "x every matchee of its per-type alphabet (non-ASCII text, bytes with high bytes, control characters, "
                             "multi-line text, tuples, lists, dicts, None, prepared filesystem paths, callables, exc_info tuples) "
                             "x verbose x annotation"},
            rule="every path non-trivial (one matcher x matchee x flags)",
            fidelity=lambda seed: [(k // BLK, k % BLK, v, False) for k in range(0, len(cases()[0]), 9) for v in (False, True)],
            observe=lambda b, j, v, a: (lambda o: (__import__("re").sub(r"0x[0-9a-f]+", "0x", o.get("matcher") or ""), o.get("mismatch"), o["problems"]))(run_stock_bj(b, j, v, a)),
            describe=run_stock_bj),
    Harness("expect_then", h_expect_then, lambda tier: [({}, 600)],
            bounds={"quick": "a mismatching expectThat in the body followed by {return, skip, expected failure, SkipTest subclass, fail, "
                             "error} in the body, tearDown or a cleanup x 7 result flavours: the test is reported as failed"},
            rule="every path non-trivial", describe=run_expect_then,
            fidelity=lambda seed: [(w, k, f) for w in range(3) for k in range(6) for f in (0, 2, 5)],
            observe=lambda *a: run_expect_then(*a)["names"]),
    Harness("details", h_details, lambda tier: [({}, 600)],
            bounds={"quick": "0..2 user details and 1..2 mismatch details with names from {x, traceback, 'Failed expectation', e-acute, x-1}, "
                             "assertThat or expectThat, once or twice"},
            rule="every path non-trivial",
            describe=run_details),
]
OUTSIDE = ["FileContains applied to a directory (open() raises; a directory is outside the matcher's domain)",
           "strings longer than the bound / characters outside the class alphabet for text_repr (repr is CPython's)",
           "matcher/matchee pairs outside the catalogue; filesystem state other than the prepared scratch directory"]
