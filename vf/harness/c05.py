"""C05 - all details and every traceback reach the result; none is dropped or overwritten."""
import fixtures

from testtools.content import Content, text_content
from testtools.content_type import ContentType
from testtools.matchers._impl import Mismatch
from testtools.testresult import doubles

from vf import ch, programs as P
from vf.driver import Harness

PROPERTY = "C05"
KINDS = [P.RET, P.FAIL, P.ERROR, P.SKIP, P.XFAIL, P.MULTI, P.UXS, P.NMULTI]
UNAMES = ["x", "traceback", "traceback-1", "Failed expectation", "é"]
BIN = ContentType("application", "octet-stream")
# how many traceback details / handler calls a raised kind accounts for
N_TB = {P.RET: 0, P.FAIL: 1, P.ERROR: 1, P.SKIP: 0, P.XFAIL: 1, P.MULTI: 2, P.UXS: 0, P.NMULTI: 3}
N_EXC = {P.RET: 0, P.FAIL: 1, P.ERROR: 1, P.SKIP: 1, P.XFAIL: 1, P.MULTI: 2, P.UXS: 1, P.NMULTI: 3}


class _DetailMatcher:
    def __init__(self, names):
        self.names = names

    def __str__(self):
        return "DetailMatcher"

    def match(self, x):
        return Mismatch("nope", {n: text_content("mismatch-%s" % n) for n in self.names})


def joined(chunks):
    out = b""
    for c in chunks:
        out = out + c
    return out


def run_program(su, body, td, c1, u0, u1, mm, fx, nh, pay0, pay1):
    log = []
    result = doubles.ExtendedTestResult()
    events = result._events
    user_names = [UNAMES[u] for u in (u0, u1) if u < len(UNAMES)]
    user_names = list(dict.fromkeys(user_names))          # distinct names
    payload = {}
    for k, n in enumerate(user_names):
        payload[n] = [pay0, pay1] if k == 0 else [pay1]
    fx_detail_name = {0: None, 1: "fx", 2: "x", 3: "fx", 4: "x", 5: "fx"}[fx]

    class Fx(fixtures.Fixture):
        def _setUp(self):
            self.addDetail(fx_detail_name, text_content("fixture-detail"))
            if fx == 4:
                # a second detail whose name is what the first one would be renamed to on a collision
                self.addDetail(fx_detail_name + "-1", text_content("fixture-detail-2"))
            if fx == 5:
                # the fixture's own clean-up fails as well while setUp unwinds: MultipleExceptions with 3 constituents
                self.addCleanup(self._boom)
            if fx in (3, 5):
                raise RuntimeError("fixture setUp failed")

        def _boom(self):
            raise RuntimeError("fixture clean-up failed")

    def body_hook(case):
        for k in range(nh):
            case.addOnException(lambda exc_info, k=k: events.append(("handler", k, exc_info[0].__name__)))
        for n in user_names:
            chunks = payload[n]
            case.addDetail(n, Content(BIN, (lambda c: (lambda: list(c)))(chunks)))
        if fx:
            case.useFixture(Fx())
        if mm == 1:
            case.expectThat(1, _DetailMatcher(["x", "traceback"]))
        elif mm == 2:
            case.assertThat(1, _DetailMatcher(["x", "é"]))

    case = P.make_case(su, body, td, [c1], log, hooks={"body": body_hook})
    exc = None
    try:
        case.run(result)
    except Exception as e:
        exc = e
    problems = []
    if exc is not None:
        return {"problems": ["run() raised %r" % (exc,)]}
    outcome = [e for e in events if e[0].startswith("add")]
    if len(outcome) != 1:
        return {"problems": ["not exactly one outcome: %r" % ([e[0] for e in events],)]}
    oname = outcome[0][0]
    details = outcome[0][2] if len(outcome[0]) > 2 else {}
    if not isinstance(details, dict):
        return {"problems": ["outcome %s carries no details dict: %r" % (oname, details)]}
    ran_body = su == P.RET
    # --- reference counts ---------------------------------------------------------------------
    raised = [su] + ([body, td] if ran_body else []) + [c1]
    body_aborted_by = None
    n_tb = 0
    n_exc = 0
    if ran_body:
        # the body hook runs before behave(): a failing fixture or assertThat aborts the body there
        if fx in (3, 5):
            body_aborted_by = "fixture"
        elif mm == 2:
            body_aborted_by = "assertThat"
    for st, k in (("setUp", su), ("body", body), ("tearDown", td), ("cleanup", c1)):
        if st in ("body", "tearDown") and not ran_body:
            continue
        if st == "body" and body_aborted_by:
            if body_aborted_by == "fixture":
                n_tb += 2 if fx == 3 else 3        # MultipleExceptions(RuntimeError, [clean-up RuntimeError,] SetupError)
                n_exc += 2 if fx == 3 else 3
            else:
                n_tb += 1        # MismatchError
                n_exc += 1
            continue
        n_tb += N_TB[k]
        n_exc += N_EXC[k]
    forced = ran_body and mm == 1 and body_aborted_by != "fixture"
    # --- every user detail under its own name with identical bytes ----------------------------------
    if ran_body:
        for n in user_names:
            if n not in details:
                problems.append("user detail %r missing (keys %r)" % (n, sorted(details)))
            elif joined(list(details[n].iter_bytes())) != joined(payload[n]) or details[n].content_type != BIN:
                problems.append("user detail %r was overwritten or altered" % (n,))
        texts = [c.as_text() for c in details.values() if c.content_type.type == "text" and c.content_type.subtype == "plain"]
        if fx and texts.count("fixture-detail") < 1:
            problems.append("fixture detail missing (keys %r)" % (sorted(details),))
        if fx == 4 and texts.count("fixture-detail-2") < 1:
            problems.append("second fixture detail missing or overwritten (keys %r)" % (sorted(details),))
        if mm in (1, 2) and body_aborted_by != "fixture":
            for n in (["x", "traceback"] if mm == 1 else ["x", "é"]):
                if "mismatch-%s" % n not in texts:
                    problems.append("mismatch detail %r missing (keys %r)" % (n, sorted(details)))
        if forced and not any(k.startswith("Failed expectation") and details[k].content_type.subtype == "x-traceback" for k in details):
            problems.append("expectThat's 'Failed expectation' detail missing (keys %r)" % (sorted(details),))
    # --- tracebacks --------------------------------------------------------------------------------
    tbs = [k for k, c in details.items() if c.content_type.type == "text" and c.content_type.subtype == "x-traceback"
           and not k.startswith("Failed expectation")]
    lo, hi = n_tb, n_tb + (1 if forced else 0)
    if not (lo <= len(tbs) <= hi):
        problems.append("%d traceback details %r, expected %d..%d for stages %r" % (len(tbs), sorted(tbs), lo, hi,
                                                                                     [P.KIND_NAMES[k] for k in raised]))
    if oname == "addSkip" and "reason" not in details:
        problems.append("skip without reason detail")
    # --- addOnException handlers ---------------------------------------------------------------------
    if ran_body and nh:
        idx_out = events.index(outcome[0])
        calls = [e for e in events if e[0] == "handler"]
        late = [e for e in events[idx_out:] if e[0] == "handler"]
        if late:
            problems.append("handler called after the outcome was reported")
        # exceptions raised after the handlers were registered: body (incl. its abort), tearDown, cleanup
        n_after = 0
        if body_aborted_by == "fixture":
            n_after += 2 if fx == 3 else 3
        elif body_aborted_by == "assertThat":
            n_after += 1
        else:
            n_after += N_EXC[body]
        n_after += N_EXC[td] + N_EXC[c1]
        for k in range(nh):
            got = len([c for c in calls if c[1] == k])
            if not (n_after <= got <= n_after + (1 if forced else 0)):
                problems.append("handler %d called %d times, expected %d..%d" % (k, got, n_after, n_after + (1 if forced else 0)))
    return {"outcome": oname, "keys": sorted(details), "problems": problems}


def h_details(su: int, body: int, td: int, c1: int, u0: int, u1: int, mm: int, fx: int, nh: int,
              pay0: bytes, pay1: bytes, mf: int, mode: int) -> bool:
    """
    pre: 0 <= su < 8 and 0 <= body < 8 and 0 <= td < 8 and 0 <= c1 < 8 and 0 <= u0 < 6 and 0 <= u1 < 6
    pre: 0 <= mm < 3 and 0 <= fx < 6 and 0 <= nh < 3 and len(pay0) <= 2 and len(pay1) <= 1 and 0 <= mf < 5
    pre: 0 <= mode < 2
    post: _
    """
    try:
        md = ch.sel("mode", mode, 2)
        v = {"mode": md}
        if md == 0:
            # names / collisions / payloads: only the body may raise
            v["su"] = v["td"] = v["c1"] = 0
            v["body"] = ch.sel("body", body, len(KINDS))
            v["u0"], v["u1"] = ch.sel("u0", u0, 6), ch.sel("u1", u1, 6)
            v["mm"], v["fx"] = ch.sel("mm", mm, 3), ch.sel("fx", fx, 6)
            v["nh"] = 0
            p0, p1 = pay0, pay1
        else:
            # traceback / handler accounting across stages: fault budget, concrete payloads
            budget = [ch.sel("mf", mf, 5)]

            def kind(name, x):
                if budget[0] <= 0:
                    return 0
                k = ch.sel(name, x, len(KINDS))
                if k:
                    budget[0] -= 1
                return k
            v["mf"] = budget[0]
            v["su"] = kind("su", su)
            if v["su"] == 0:
                v["body"], v["td"] = kind("body", body), kind("td", td)
            else:
                v["body"] = v["td"] = 0
            v["c1"] = kind("c1", c1)
            if v["su"] == 0:
                v["u0"] = [5, 1][ch.sel("u0", u0, 2)]
                v["u1"] = 5
                v["mm"], v["nh"] = ch.sel("mm", mm, 3), ch.sel("nh", nh, 3)
                v["fx"] = [0, 3, 5][ch.sel("fx", fx, 3)]
            else:
                v["u0"] = v["u1"] = 5
                v["mm"] = v["fx"] = v["nh"] = 0
            p0, p1 = b"p", b"q"
    except ch.Prune:
        return True
    if ch.excluded(v):
        return True
    o = run_program(KINDS[v["su"]], KINDS[v["body"]], KINDS[v["td"]], KINDS[v["c1"]], v["u0"], v["u1"], v["mm"],
                    v["fx"], v["nh"], p0, p1)
    ch.LAST.update(o)
    nontrivial = (v["u0"] < 5 or v["mm"] or v["fx"]) or any(v[k] for k in ("su", "body", "td", "c1"))
    return ch.finish(not o["problems"], v, nontrivial=bool(nontrivial), sym=("pay0", "pay1") if md == 0 else ())


def _shards(tier):
    out = [({"mode": 0, "body": b, "mm": m}, 1800) for b in range(len(KINDS)) for m in range(3)]
    mf = 2 if tier == "quick" else 3
    out += [({"mode": 1, "mf": mf, "su": s}, 900) for s in range(1, len(KINDS))]
    out += [({"mode": 1, "mf": mf, "su": 0, "mm": m, "nh": h}, 1800) for m in range(3) for h in range(3)]
    return out


def _describe(su, body, td, c1, u0, u1, mm, fx, nh, pay0, pay1, mf, mode):
    if mode == 1:
        u0, u1, fx, pay0, pay1 = [5, 1][u0 % 2], 5, [0, 3, 5][fx % 3], b"p", b"q"
        if su:
            body = td = mm = fx = nh = 0
            u0 = 5
    else:
        su = td = c1 = nh = 0
    o = run_program(KINDS[su], KINDS[body], KINDS[td], KINDS[c1], u0, u1, mm, fx, nh, pay0, pay1)
    o["program"] = dict(setUp=P.KIND_NAMES[KINDS[su]], body=P.KIND_NAMES[KINDS[body]], tearDown=P.KIND_NAMES[KINDS[td]],
                        cleanup=P.KIND_NAMES[KINDS[c1]], user_details=[UNAMES[u] for u in (u0, u1) if u < 5],
                        mismatch=["none", "expectThat", "assertThat"][mm],
                        fixture=["none", "detail fx", "detail x", "setUp fails", "details x and x-1", "setUp and its own clean-up fail"][fx], handlers=nh)
    return o


HARNESSES = [
    Harness("details", h_details, _shards,
            bounds={"quick": "two factor harnesses. (names) only the body raises (8 behaviours: return, fail, error, skip, expected failure, "
                             "MultipleExceptions(fail,error), unexpected success, nested MultipleExceptions); (accounting) setUp/body/tearDown/one cleanup with at most 2 raising "
                             "stages, concrete payloads, user detail 'traceback' or none, fixture none or failing. In both the body first attaches 0..2 "
                             "user details named from {x, traceback, traceback-1, 'Failed expectation', e-acute} (binary content, symbolic "
                             "bytes in 1..2 chunks of length <= 2 / <= 1), optionally uses a fixture carrying a detail (own name, colliding "
                             "name, two details named x and x-1, failing setUp, or failing setUp whose own clean-up fails too), optionally expectThat / assertThat with a mismatch carrying two details (colliding "
                             "names), and registers 0..2 addOnException handlers",
                    "thorough": "at most 3 raising stages"},
            rule="non-trivial = something attached or raised", sym=("pay0", "pay1"),
            twin_fix={"mode": 0, "body": 1, "mm": 1},
            fidelity=lambda seed: [(0, b, t, c, u, 5, m, f, 1, b"ab", b"c", 3, 1) for b in (0, 1, 5) for t in (0, 2) for c in (0, 4)
                                   for u in (0, 1) for m in range(3) for f in (0, 1)],
            observe=lambda *a: (lambda o: (o.get("outcome"), o.get("keys"), o["problems"]))(_describe(*a)),
            describe=_describe,
            assumptions=["user details are attached before the framework generates a detail of the same name (a later user "
                         "addDetail under an existing name is the user overwriting, which the property does not forbid)",
                         "a forced failure after an expectThat mismatch is raised by the framework: its traceback/handler call is allowed but not required"]),
]
OUTSIDE = ["detail names outside the 5-name alphabet (names are built with %-formatting on concrete strings)",
           "text payloads with symbolic bytes"]
