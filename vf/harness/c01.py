"""C01 - every test run is bracketed and yields exactly one outcome; BaseException propagates."""
from vf import ch, lifecycle as L, programs as P
from vf.driver import Harness

PROPERTY = "C01"
MAXF = {"quick": 2, "thorough": 3}
_TIER = ["quick"]


def run_c01(su, body, td, c1, c2, ncl, flag, flav, max_faults):
    cl = L.canonical(su, body, td, c1, c2, ncl, flag, max_faults)
    if cl is None:
        return None
    log = []
    case = P.make_case(su, body, td, cl, log, expect_mismatch=(flag == 1), force_failure=(flag == 2))
    names, exc, _res = L.run_once(case, flav)
    exp_log, raised = L.reference(su, body, td, cl, flag)
    ok_br, seen = L.outcome_of(names, flav)
    problems = []
    if not ok_br:
        problems.append("not bracketed / not exactly one outcome: %r" % (names,))
    if "base" in raised:
        if ok_br and seen != L.seen_as("error", flav):
            problems.append("non-Exception raised but outcome is %s" % seen)
        if log != exp_log:
            problems.append("stages after the non-Exception did not all run: %r" % (log,))
        if exc is None:
            problems.append("non-Exception did not propagate out of run()")
        elif not isinstance(exc, (KeyboardInterrupt, SystemExit)):
            problems.append("run() raised %r" % (exc,))
    else:
        if exc is not None:
            problems.append("run() raised %r" % (exc,))
    return {"names": names, "exc": type(exc).__name__ if exc else None, "log": log,
            "raised": raised, "problems": problems}


def pick_program(su, body, td, c1, c2, ncl, flag, mf):
    """Concretise the program selectors in order, spending a fault budget so that vectors outside
    the bound are never enumerated (selectors that cannot matter stay untouched = one path)."""
    budget = ch.sel("mf", mf, 6)
    v = {"mf": budget}
    left = [budget]

    def kind(name, x):
        if left[0] <= 0:
            return P.RET
        k = ch.sel(name, x, P.N_KINDS)
        if k != P.RET:
            left[0] -= 1
        return k

    v["su"] = kind("su", su)
    v["ncl"] = ch.sel("ncl", ncl, 3)
    if v["su"] == P.RET:
        v["body"] = kind("body", body)
        v["td"] = kind("td", td)
    else:
        v["body"] = v["td"] = P.RET
    v["c1"] = kind("c1", c1) if v["ncl"] >= 1 else P.RET
    v["c2"] = kind("c2", c2) if v["ncl"] >= 2 else P.RET
    if v["su"] == P.RET and left[0] > 0:
        v["flag"] = ch.sel("flag", flag, 3)
    else:
        v["flag"] = 0
    return v


def h_life(su: int, body: int, td: int, c1: int, c2: int, ncl: int, flag: int, flav: int,
           mf: int) -> bool:
    """
    pre: 0 <= su < 10 and 0 <= body < 10 and 0 <= td < 10 and 0 <= c1 < 10 and 0 <= c2 < 10
    pre: 0 <= ncl < 3 and 0 <= flag < 3 and 0 <= flav < 7 and 0 <= mf < 6
    post: _
    """
    try:
        fl = ch.sel("flav", flav, 7)
        v = pick_program(su, body, td, c1, c2, ncl, flag, mf)
        v["flav"] = fl
    except ch.Prune:
        return True
    o = run_c01(v["su"], v["body"], v["td"], v["c1"], v["c2"], v["ncl"], v["flag"], v["flav"],
                v["mf"])
    if o is None:
        ch.STATS["pruned"] += 1
        return True
    v["raised"] = o["raised"]
    if ch.excluded(v):
        return True
    return ch.finish(not o["problems"], v, nontrivial=len(o["raised"]) >= 1)


SKIP_REASONS = ["deco", ""]


def h_skipdeco(deco: int, reason: int, body: int, flav: int) -> bool:
    """
    pre: 0 <= deco < 6 and 0 <= reason < 2 and 0 <= body < 10 and 0 <= flav < 7
    post: _
    """
    try:
        v = dict(deco=ch.sel("deco", deco, 6), reason=ch.sel("reason", reason, 2), body=ch.sel("body", body, P.N_KINDS),
                 flav=ch.sel("flav", flav, 7))
    except ch.Prune:
        return True
    o = run_skipdeco(v["deco"], v["reason"], v["body"], v["flav"])
    return ch.finish(not o["problems"], v, nontrivial=True)


def h_xfdeco(body: int, td: int, flav: int) -> bool:
    """
    pre: 0 <= body < 10 and 0 <= td < 10 and 0 <= flav < 7
    post: _
    """
    try:
        v = dict(body=ch.sel("body", body, P.N_KINDS), td=ch.sel("td", td, P.N_KINDS), flav=ch.sel("flav", flav, 7))
    except ch.Prune:
        return True
    o = run_xfdeco(v["body"], v["td"], v["flav"])
    return ch.finish(not o["problems"], v, nontrivial=True)


def run_xfdeco(body, td, flav):
    """The test method carries @unittest.expectedFailure: bracketing, one outcome, and a non-Exception raised by the
    decorated method is still an error that propagates."""
    log = []
    case = P.make_case(P.RET, body, td, [P.RET], log, xf_deco=True)
    names, exc, _ = L.run_once(case, flav)
    ok_br, seen = L.outcome_of(names, flav)
    problems = []
    if not ok_br:
        problems.append("not bracketed / not exactly one outcome: %r" % (names,))
    if log != ["setUp", "body", "tearDown", "cleanup0"]:
        problems.append("stages did not all run: %r" % (log,))
    base = body in P.BASE_KINDS or td in P.BASE_KINDS
    if base:
        if ok_br and seen != L.seen_as("error", flav):
            problems.append("non-Exception raised but outcome is %s" % seen)
        if not isinstance(exc, (KeyboardInterrupt, SystemExit)):
            problems.append("non-Exception did not propagate out of run(): %r" % (exc,))
    else:
        if exc is not None:
            problems.append("run() raised %r" % (exc,))
        if ok_br and td == P.RET and body in (P.RET, P.FAIL, P.ERROR):
            want = "uxsuccess" if body == P.RET else "xfail"
            if seen != L.seen_as(want, flav):
                problems.append("decorated method %s but outcome is %s" % (P.KIND_NAMES[body], seen))
    return {"names": names, "exc": type(exc).__name__ if exc else None, "log": log, "problems": problems}


EMPTY_FORMS = ["MultipleExceptions()", "MultipleExceptions(exc_info of MultipleExceptions())",
               "MultipleExceptions(exc_info of a failure, exc_info of MultipleExceptions())"]


def run_emptymulti(stage, form, flav):
    """A stage raises a MultipleExceptions without constituents (e.g. `raise MultipleExceptions(*collected)` with nothing
    collected): still exactly one outcome - an error (a failure for form 2) - later stages run, run() returns."""
    from testtools.runtest import MultipleExceptions
    log = []

    def boom(case):
        if form == 0:
            raise MultipleExceptions()
        inner = P._exc_info(MultipleExceptions())
        if form == 1:
            raise MultipleExceptions(inner)
        raise MultipleExceptions(P._exc_info(AssertionError("real failure")), inner)

    hook = ["setUp", "body", "tearDown", "cleanup0"][stage]
    case = P.make_case(P.RET, P.RET, P.RET, [P.RET], log, hooks={hook: boom})
    names, exc, _ = L.run_once(case, flav)
    ok_br, seen = L.outcome_of(names, flav)
    problems = []
    if not ok_br:
        problems.append("not bracketed / not exactly one outcome: %r" % (names,))
    elif seen not in (L.seen_as("error", flav), L.seen_as("failure", flav)):
        problems.append("a stage raised but the outcome is %s" % seen)
    want_log = ["setUp", "cleanup0"] if stage == 0 else ["setUp", "body", "tearDown", "cleanup0"]
    if log != want_log:
        problems.append("stages run: %r, expected %r" % (log, want_log))
    if exc is not None:
        problems.append("run() raised %r" % (exc,))
    return {"names": names, "log": log, "problems": problems}


def h_emptymulti(stage: int, form: int, flav: int) -> bool:
    """
    pre: 0 <= stage < 4 and 0 <= form < 3 and 0 <= flav < 7
    post: _
    """
    try:
        v = dict(stage=ch.sel("stage", stage, 4), form=ch.sel("form", form, 3), flav=ch.sel("flav", flav, 7))
    except ch.Prune:
        return True
    if ch.excluded(v):
        return True
    o = run_emptymulti(v["stage"], v["form"], v["flav"])
    return ch.finish(not o["problems"], v, nontrivial=True)


def run_skipdeco(deco, reason, body, flav):
    log = []
    case = P.make_case(P.RET, body, P.RET, [P.FAIL], log, skip_deco=deco + 1, skip_reason=SKIP_REASONS[reason])
    names, exc, _ = L.run_once(case, flav)
    ok_br, seen = L.outcome_of(names, flav)
    problems = []
    if not ok_br or seen != L.seen_as("skip", flav):
        problems.append("decorated skip not reported as one skip: %r" % (names,))
    if log:
        problems.append("user code ran although the test is decorated with skip: %r" % (log,))
    if exc is not None:
        problems.append("run() raised %r" % (exc,))
    return {"names": names, "log": log, "problems": problems}


def _shards(tier):
    mf = MAXF[tier]
    return [({"flav": f, "su": s, "mf": mf}, 240 if tier == "quick" else 900)
            for f in range(7) for s in range(P.N_KINDS)]


def _fid(seed):
    import random
    rng = random.Random(seed)
    vecs = [(0, 0, 0, 0, 0, 0, 0, f, 2) for f in range(7)]
    vecs += [(0, P.KI, 0, P.FAIL, 0, 1, 0, f, 2) for f in range(7)]
    for _ in range(200):
        ncl = rng.randrange(3)
        su = rng.choice([0, 0, 0] + list(range(P.N_KINDS)))
        vecs.append((su, rng.randrange(P.N_KINDS) if su == 0 else 0,
                     rng.randrange(P.N_KINDS) if su == 0 else 0,
                     rng.randrange(P.N_KINDS) if ncl > 0 else 0,
                     rng.randrange(P.N_KINDS) if ncl > 1 else 0, ncl,
                     rng.randrange(3) if su == 0 else 0, rng.randrange(7), 5))
    return vecs


def _observe(*a):
    o = run_c01(*a)
    return None if o is None else (o["names"], o["exc"], o["log"])


HARNESSES = [
    Harness(
        "life", h_life, _shards,
        bounds={"quick": "5 stage slots (setUp, body, tearDown, 0..2 cleanups) x 10 behaviours "
                         "(return, fail, error, skip, expectFailure-xfail, unexpected success, "
                         "MultipleExceptions(fail,error), KeyboardInterrupt, SystemExit, SkipTest subclass) "
                         "+ flag {none, expectThat mismatch, force_failure}; at most 2 faults per program; "
                         "x 7 result flavours; all selectors exhausted by the solver",
                "thorough": "same alphabet, at most 3 faults per program"},
        rule="a completed path is one program x flavour; non-trivial = at least one stage raised or the flag is set",
        fidelity=_fid, observe=_observe,
        describe=lambda *a: run_c01(*[ch.conc(x, 99) for x in a]),
        assumptions=["result doubles from testtools.testresult.doubles are the 'result flavours'",
                     "cleanups are registered in setUp before its raise point",
                     "when setUp raises, body/tearDown kinds are irrelevant (canonical form: return)"]),
    Harness(
        "skipdeco", h_skipdeco, lambda tier: [({"deco": d}, 240) for d in range(6)],
        bounds={"quick": "method / class decorated with testtools skip, skipIf(True) / skipUnless(False), unittest.skip x reason "
                         "{non-empty, empty string} x 10 body behaviours x 7 flavours"},
        rule="every path non-trivial (decorated test)",
        fidelity=lambda seed: [(d, r, b, f) for d in range(6) for r in range(2) for b in (0, 7) for f in range(7)],
        observe=lambda *a: (lambda o: (o["names"], o["log"]))(run_skipdeco(*a)),
        describe=lambda *a: run_skipdeco(*a)),
    Harness(
        "xfdeco", h_xfdeco, lambda tier: [({"flav": f}, 240) for f in range(7)],
        bounds={"quick": "test method decorated with unittest.expectedFailure x 10 body behaviours x 10 tearDown behaviours x 7 flavours"},
        rule="every path non-trivial (decorated test)",
        fidelity=lambda seed: [(b, t, f) for b in range(P.N_KINDS) for t in (0, 2) for f in (2, 5)],
        observe=lambda *a: (lambda o: (o["names"], o["exc"], o["log"]))(run_xfdeco(*a)),
        describe=lambda *a: run_xfdeco(*a)),
    Harness(
        "emptymulti", h_emptymulti, lambda tier: [({}, 240)],
        bounds={"quick": "setUp / body / tearDown / cleanup raises a MultipleExceptions with no constituents (bare, nested in another, "
                         "next to a real failure) x 7 flavours"},
        rule="every path non-trivial",
        describe=lambda *a: run_emptymulti(*a)),
]
OUTSIDE = ["constituents of MultipleExceptions other than (failure, error) and the empty one",
           "user code that tampers with the result object",
           "programs with more faults than the bound; more than 2 cleanups"]
