"""C13 - concurrent suites run every test once, deliver every event, and terminate."""
import unittest

import testtools
from testtools import PlaceHolder
from testtools import testsuite as ts_mod
from testtools.testresult import doubles

from vf import ch
from vf.driver import Harness
from vf.sched import Deadlock, FakeQueue, Sched, make_fake_threading

PROPERTY = "C13"


class Injected(Exception):
    pass


# route codes handed out by make_tests (stream suite): distinct, the same string for all, or None for all
ROUTE_OF = [lambda w: str(w), lambda w: "0", lambda w: None]


class SubSuite:
    def __init__(self, sched, w, ntests, broken, record):
        self.sched, self.w, self.ntests, self.broken, self.record = sched, w, ntests, broken, record

    def run(self, result):
        self.record.setdefault("runs", []).append((self.w, self.sched.me()))
        self.record.setdefault("results", {})[self.w] = result
        for n in range(self.ntests):
            if getattr(result, "shouldStop", False):
                self.record.setdefault("stopped_early", []).append(self.w)
                break
            PlaceHolder("w%d.t%d" % (self.w, n), outcome=["addSuccess", "addFailure"][n % 2]).run(result)
        if self.broken == 1:
            raise RuntimeError("sub-suite %d is broken" % self.w)
        if self.broken == 2:
            raise SystemExit(3)          # e.g. a test calling sys.exit(): ends the worker thread, nothing to report

    def __hash__(self):
        return id(self)


class CallerResult(doubles.ExtendedTestResult):
    """The caller's TestResult: calls are scheduling points, logged with the calling thread; may raise."""

    def __init__(self, sched, fault_at):
        super().__init__()
        self._sched, self._fault_at, self._n = sched, fault_at, 0
        self.tlog = []

    def _enter(self, name, test=None):
        self._sched.yield_point("result." + name)
        k = self._n
        self._n += 1
        self.tlog.append((self._sched.me(), name, test.id() if test is not None else None))
        if k == self._fault_at:
            raise Injected("caller's result raised at call %d" % k)

    def startTest(self, test):
        self._enter("startTest", test)
        super().startTest(test)

    def stopTest(self, test):
        self._enter("stopTest", test)
        super().stopTest(test)

    def addSuccess(self, test, details=None):
        self._enter("addSuccess", test)
        super().addSuccess(test, details=details)

    def addFailure(self, test, err=None, details=None):
        self._enter("addFailure", test)
        super().addFailure(test, err, details=details)

    def addError(self, test, err=None, details=None):
        self._enter("addError", test)
        super().addError(test, err, details=details)

    def time(self, t):
        self._enter("time")

    def tags(self, new, gone):
        self._enter("tags")
        super().tags(new, gone)

    def stop(self):
        self.tlog.append((self._sched.me(), "stop", None))
        super().stop()


class CallerStream(doubles.StreamResult):
    def __init__(self, sched, fault_at):
        super().__init__()
        self._sched, self._fault_at, self._n = sched, fault_at, 0

    def status(self, **kw):
        k = self._n
        self._n += 1
        if k == self._fault_at:
            raise Injected("caller's stream result raised at event %d" % k)
        super().status(**kw)


def run_suite(stream, nworkers, t0, t1, broken, fkind, fpos, schedule, routes=0):
    """broken: 0 none; 1, 2: worker 0 / 1 raises RuntimeError from run(); 3, 4: worker 0 / 1 ends with SystemExit.
    fkind: 0 none; 1 caller's result raises at its fpos-th call; 2 make_tests raises after yielding fpos
    sub-suites; 3 KeyboardInterrupt out of the caller's fpos-th queue.get()."""
    pos = [0]

    def chooser(n):
        if pos[0] < len(schedule):
            v = schedule[pos[0]]
            pos[0] += 1
            return ch.conc(v, n)
        return 0

    sched = Sched(chooser)
    record = {}
    ntests = [t0, t1][:nworkers]
    exits = broken - 2 if broken >= 3 else 0          # worker exits+... (1-based) ends with SystemExit
    if broken >= 3:
        broken = 0
    subs = [SubSuite(sched, w, ntests[w], 1 if broken == w + 1 else (2 if exits == w + 1 else 0), record)
            for w in range(nworkers)]

    def tests_iter():
        for w, s in enumerate(subs):
            if fkind == 2 and w == fpos:
                raise Injected("make_tests failed after %d sub-suites" % w)
            yield (s, ROUTE_OF[routes](w)) if stream else s
        if fkind == 2 and fpos >= nworkers:
            raise Injected("make_tests failed after all sub-suites")

    gets = [0]

    class Q(FakeQueue):
        def get(self, block=True, timeout=None):
            if fkind == 3 and sched.me() == 0:
                k = gets[0]
                gets[0] += 1
                if k == fpos:
                    raise KeyboardInterrupt()
            return FakeQueue.get(self)

    saved = (ts_mod.threading, ts_mod.Queue)
    ts_mod.threading = make_fake_threading(sched)
    ts_mod.Queue = lambda: Q(sched)
    outcome = {}
    # "told to stop" = stop() is called on the worker's own result object: log those calls
    from testtools.testresult import real as _real
    told = []
    saved_stop = (_real.TestControl.stop, _real.ThreadsafeForwardingResult.stop)

    def _tc_stop(self):
        told.append(id(self))
        return saved_stop[0](self)

    def _tfr_stop(self):
        told.append(id(self))
        return saved_stop[1](self)

    _real.TestControl.stop = _tc_stop
    _real.ThreadsafeForwardingResult.stop = _tfr_stop
    try:
        if stream:
            result = CallerStream(sched, fpos if fkind == 1 else -1)
            suite = ts_mod.ConcurrentStreamTestSuite(lambda: tests_iter())
        else:
            result = CallerResult(sched, fpos if fkind == 1 else -1)
            suite = ts_mod.ConcurrentTestSuite(unittest.TestSuite(), lambda s: tests_iter())

        def caller():
            try:
                suite.run(result)
                outcome["returned"] = True
            except BaseException as e:  # noqa
                if type(e).__name__ == "_Abort":
                    raise
                outcome["raised"] = e
            outcome["states_at_return"] = {t: s for t, s in sched.state.items() if t != 0}

        sched.spawn(caller, name="caller")
        problems = []
        try:
            sched.run()
        except Deadlock as e:
            problems.append("deadlock: %s" % e)
        finally:
            sched.shutdown()
    finally:
        ts_mod.threading, ts_mod.Queue = saved
        _real.TestControl.stop, _real.ThreadsafeForwardingResult.stop = saved_stop
    runs = record.get("runs", [])
    for tid, e in sched.errors.items():
        if exits and isinstance(e, SystemExit) and (exits - 1, tid) in runs:
            continue          # the worker that was made to end with SystemExit: its thread just ends (as threading does)
        problems.append("thread %d died with %r" % (tid, e))
    started = [w for w, _ in runs]
    # ---- expectations ------------------------------------------------------------------------------------
    aborted = fkind in (1, 2, 3) and ("raised" in outcome)
    n_expected_started = nworkers if fkind != 2 else min(fpos, nworkers)
    if sorted(started) != sorted(set(started)):
        problems.append("a sub-suite was run more than once: %r" % (runs,))
    if any(t == 0 for _, t in runs) or len({t for _, t in runs}) != len(runs):
        problems.append("sub-suites did not each get their own thread: %r" % (runs,))
    if "returned" in outcome:
        if fkind == 2 or (fkind == 3 and False):
            problems.append("run() returned although make_tests failed")
        if sorted(started) != list(range(nworkers)):
            problems.append("run() returned but sub-suites %r were run (expected all %d)" % (started, nworkers))
        not_done = {t: s for t, s in outcome["states_at_return"].items() if s != "done"}
        if not_done:
            problems.append("run() returned while worker threads were still alive: %r" % (not_done,))
    elif "raised" in outcome:
        e = outcome["raised"]
        ok_exc = (fkind in (1, 2) and isinstance(e, Injected)) or (fkind == 3 and isinstance(e, KeyboardInterrupt))
        if not ok_exc:
            problems.append("run() raised %r (fault kind %d)" % (e, fkind))
        # every worker already started must have been told to stop
        for w in started:
            pr = record["results"][w]
            if id(pr) not in told:
                # a worker that had completely finished (and was joined) before the abort need not be stopped
                fin = _finished_before_abort(stream, result, w, ntests, broken)
                if not fin:
                    problems.append("run() was aborted but started worker %d was not told to stop" % w)
    elif not problems:
        problems.append("the caller thread never finished")
    # ---- delivery (only demanded for a run that was not aborted) ------------------------------------------
    if "returned" in outcome and fkind in (0, 3):
        for w in range(nworkers):
            want_ids = ["w%d.t%d" % (w, n) for n in range(ntests[w])]
            if stream:
                rc = ROUTE_OF[routes](w)
                evs = [e for e in result._events if e[0] == "status" and e.route_code == rc
                       and (routes == 0 or (e.test_id or "").startswith("w%d." % w) or (e.test_id or "").startswith("broken-runner"))]
                got = [(e.test_id, e.test_status) for e in evs if e.file_name is None]
                want = []
                for n, i in enumerate(want_ids):
                    want += [(i, "inprogress"), (i, ["success", "fail"][n % 2])]
                if broken == w + 1:
                    want += [("broken-runner-'%s'" % (rc,), "inprogress"), ("broken-runner-'%s'" % (rc,), "fail")]
                elif routes:
                    got = [g for g in got if not g[0].startswith("broken-runner")]
                if got != want:
                    problems.append("stream events of worker %d: %r, expected %r" % (w, got, want))
                if any(e.timestamp is None for e in evs):
                    problems.append("an event of worker %d has no timestamp" % w)
            else:
                log = result.tlog
                got = [(n, i) for (_t, n, i) in log if i is not None and (i.startswith("w%d." % w))
                       and n in ("startTest", "addSuccess", "addFailure", "stopTest")]
                want = []
                for n, i in enumerate(want_ids):
                    want += [("startTest", i), (["addSuccess", "addFailure"][n % 2], i), ("stopTest", i)]
                if got != want:
                    problems.append("events of worker %d: %r, expected %r" % (w, got, want))
        if stream:
            others = [e for e in result._events if e[0] == "status" and e.route_code not in [ROUTE_OF[routes](w) for w in range(nworkers)]]
            if others:
                problems.append("events with an unexpected route code: %r" % (others[:2],))
        else:
            log = [(t, n, i) for (t, n, i) in result.tlog if n in ("startTest", "addSuccess", "addFailure", "addError", "stopTest")]
            cur = None
            for t, n, i in log:
                if n == "startTest":
                    if cur is not None:
                        problems.append("the result saw startTest(%s) inside the block of %s" % (i, cur))
                        break
                    cur = i
                elif n == "stopTest":
                    cur = None
                elif cur != i:
                    problems.append("outcome of %s inside the block of %s" % (i, cur))
                    break
            if broken:
                if not any(i == "broken-runner" and n == "addError" for (_t, n, i) in result.tlog):
                    problems.append("broken sub-suite not reported as an errored 'broken-runner' test")
    return {"outcome": {k: repr(v) for k, v in outcome.items() if k != "states_at_return"}, "runs": runs,
            "choices": sched.choices, "trace": sched.trace, "problems": problems}


def _finished_before_abort(stream, result, w, ntests, broken):
    """True when worker w's events had all been delivered before the abort (it may have been joined already)."""
    if stream:
        evs = [e for e in result._events if e[0] == "status" and e.file_name is None
               and ((e.test_id or "").startswith("w%d." % w) or (e.test_id or "").startswith("broken-runner"))]
        return len(evs) >= 2 * ntests[w] + (2 if broken == w + 1 else 0)
    stops = [1 for (_t, n, i) in result.tlog if n == "stopTest" and i and (i.startswith("w%d." % w) or i == "broken-runner")]
    return len(stops) >= ntests[w] + (1 if broken == w + 1 else 0)


def h_suite(stream: int, nworkers: int, t0: int, t1: int, broken: int, fkind: int, fpos: int,
            s0: int, s1: int, s2: int, s3: int, s4: int, s5: int, s6: int, s7: int, s8: int, s9: int,
            s10: int, s11: int, s12: int, s13: int, depth: int, routes: int) -> bool:
    """
    pre: 0 <= routes < 3
    pre: 0 <= stream < 2 and 1 <= nworkers <= 2 and 0 <= t0 <= 2 and 0 <= t1 <= 2 and 0 <= broken <= 4
    pre: 0 <= fkind < 4 and 0 <= fpos < 12 and 0 <= depth <= 14
    pre: 0 <= s0 < 3 and 0 <= s1 < 3 and 0 <= s2 < 3 and 0 <= s3 < 3 and 0 <= s4 < 3 and 0 <= s5 < 3 and 0 <= s6 < 3
    pre: 0 <= s7 < 3 and 0 <= s8 < 3 and 0 <= s9 < 3 and 0 <= s10 < 3 and 0 <= s11 < 3 and 0 <= s12 < 3 and 0 <= s13 < 3
    post: _
    """
    try:
        v = dict(stream=ch.sel("stream", stream, 2), nworkers=ch.sel("nworkers", nworkers, 3))
        if v["nworkers"] < 1:
            return True
        v["t0"] = ch.sel("t0", t0, 3)
        v["t1"] = ch.sel("t1", t1, 3) if v["nworkers"] == 2 else 0
        v["broken"] = ch.sel("broken", broken, 5)
        if v["broken"] and (v["broken"] - 1) % 2 >= v["nworkers"]:
            raise ch.Prune()
        v["fkind"] = ch.sel("fkind", fkind, 4)
        v["fpos"] = ch.sel("fpos", fpos, 12) if v["fkind"] else 0
        dp = ch.sel("depth", depth, 15)
        v["routes"] = ch.sel("routes", routes, 3) if v["stream"] else 0
    except ch.Prune:
        return True
    sv = [s0, s1, s2, s3, s4, s5, s6, s7, s8, s9, s10, s11, s12, s13][:dp]
    try:
        o = run_suite(bool(v["stream"]), v["nworkers"], v["t0"], v["t1"], v["broken"], v["fkind"], v["fpos"], sv, v["routes"])
    except ch.Prune:
        return True
    v["trace"] = tuple(o["trace"])
    ch.LAST.update(o)
    return ch.finish(not o["problems"], v, nontrivial=o["choices"] >= 1)


def _shards(tier):
    out = []
    if tier == "quick":
        out.append(({"stream": 1, "nworkers": 2, "t0": 1, "t1": 1, "broken": 0, "fkind": 0, "depth": 6, "routes": 1}, 1800))
        out.append(({"stream": 1, "nworkers": 2, "t0": 1, "t1": 1, "broken": 0, "fkind": 0, "depth": 6, "routes": 2}, 1800))
        out.append(({"stream": 1, "nworkers": 2, "t0": 1, "t1": 0, "broken": 2, "fkind": 0, "depth": 6, "routes": 2}, 1800))
        for st in (0, 1):
            out.append(({"stream": st, "nworkers": 2, "t0": 1, "t1": 1, "broken": 0, "fkind": 0, "depth": 8, "routes": 0}, 1800))
            out.append(({"stream": st, "nworkers": 2, "t0": 1, "t1": 0, "broken": 1, "fkind": 0, "depth": 7}, 1800))
            out.append(({"stream": st, "nworkers": 2, "t0": 1, "t1": 1, "broken": 4, "fkind": 0, "depth": 6}, 1800))
            out.append(({"stream": st, "nworkers": 1, "t0": 2, "broken": 0, "fkind": 0, "depth": 8}, 1800))
            for fp in (0, 2, 3):
                out.append(({"stream": st, "nworkers": 2, "t0": 1, "t1": 1, "broken": 0, "fkind": 1, "fpos": fp, "depth": 6}, 1800))
            for fp in (0, 1, 2):
                out.append(({"stream": st, "nworkers": 2, "t0": 1, "t1": 1, "broken": 0, "fkind": 2, "fpos": fp, "depth": 6}, 1800))
            for fp in (0, 1):
                out.append(({"stream": st, "nworkers": 2, "t0": 1, "t1": 1, "broken": 0, "fkind": 3, "fpos": fp, "depth": 6}, 1800))
    else:
        for rt in (1, 2):
            for br in range(3):
                out.append(({"stream": 1, "nworkers": 2, "t0": 1, "t1": 1, "broken": br, "fkind": 0, "depth": 7, "routes": rt}, 3000))
        for st in (0, 1):
            # every (t0, t1, broken) configuration at a shallower depth, the quick configurations one level deeper
            for a in range(3):
                for b in range(3):
                    for br in range(5):
                        out.append(({"stream": st, "nworkers": 2, "t0": a, "t1": b, "broken": br, "fkind": 0, "depth": 6, "routes": 0}, 3000))
            out.append(({"stream": st, "nworkers": 2, "t0": 1, "t1": 1, "broken": 0, "fkind": 0, "depth": 9, "routes": 0}, 3000))
            out.append(({"stream": st, "nworkers": 1, "t0": 2, "broken": 0, "fkind": 0, "depth": 9}, 3000))
            for fk, rng in ((1, range(8)), (2, range(3)), (3, range(4))):
                for fp in rng:
                    out.append(({"stream": st, "nworkers": 2, "t0": 1, "t1": 1, "broken": 0, "fkind": fk, "fpos": fp, "depth": 7}, 3000))
    for fix, _t in out:
        fix.setdefault("routes", 0)
    return out


def _describe(*a):
    stream, nworkers, t0, t1, broken, fkind, fpos = a[:7]
    depth, routes = a[-2], a[-1]
    return run_suite(bool(stream), nworkers, t0, t1, broken, fkind, fpos, list(a[7:21])[:depth], routes if stream else 0)


HARNESSES = [
    Harness("suite", h_suite, _shards,
            bounds={"quick": "ConcurrentTestSuite and ConcurrentStreamTestSuite with threading/Queue replaced by scheduler-aware fakes; the "
                             "caller of run() is itself a scheduled thread. Symbolic schedule: the solver picks the next runnable thread at "
                             "each of the first k choice points (k = 6..8). Configurations: 2 workers x 1 test each (stream suite also with both workers sharing one route code, a string or None); a worker whose run() "
                             "raises; a worker that ends with SystemExit after its test; 1 worker x 2 tests; faults: the caller's result raises at its call/event 0, 2, 3; make_tests raises "
                             "after yielding 0, 1, 2 sub-suites; KeyboardInterrupt out of the caller's 1st / 2nd queue.get()",
                    "thorough": "every (t0, t1, broken) in 0..2 x 0..2 x {none, worker 0 / 1 raises, worker 0 / 1 ends with SystemExit} with k = 6; the quick configurations with k = 9; every fault position (result call 0..7, make_tests 0..2, queue.get 0..3) with k = 7"},
            rule="one schedule per path; non-trivial = at least one point with more than one runnable thread",
            twin_fix={"stream": 0, "nworkers": 2, "t0": 1, "t1": 1, "broken": 0, "fkind": 0, "depth": 3, "routes": 0},
            describe=_describe,
            assumptions=["testtools.testsuite.threading / Queue are replaced by fakes with the same blocking contract; scheduling "
                         "points: Thread.start/join, Queue.put/get, Semaphore.acquire/release, every call on the caller's TestResult",
                         "sub-suites honour shouldStop between tests (as make_tests is documented to require)"]),
]
OUTSIDE = ["more than 2 workers / 2 tests per worker; schedule choices beyond depth k; real OS threads running truly in parallel",
           "after an abort the workers are not joined (the property only demands that they are told to stop and the exception propagates)"]
