"""C11 - stream decorators forward each event once, change only their field, never alias."""
import datetime

from testtools.testresult import doubles
from testtools.testresult import real
from testtools.testresult.real import (CopyStreamResult, StreamFailFast, StreamTagger, StreamToQueue,
                                       TimestampingStreamResult)

from vf import ch
from vf.driver import Harness

PROPERTY = "C11"
NOW = "<now-token>"
NLEAF = 3
# the third variant adds and discards an overlapping set (discard wins): on events with and without tags
TAGGER = [(("x",), ()), ((), ("t",)), (("u", "t"), ("t",))]
NOPS = 3 + 1 + 3 + 9
OPNAMES = ["Sink", "FailFast", "ToQueue('0')", "Timestamping"] + ["Copy/%d" % k for k in (1, 2, 3)] + \
          ["Tagger%s/%d" % (v, k) for v in ("+x", "-t", "+u,t-t") for k in (1, 2, 3)]


class FakeDatetime:
    class datetime:
        @staticmethod
        def now(tz=None):
            return NOW


class ListQueue:
    def __init__(self):
        self.items = []

    def put(self, x):
        self.items.append(x)


class Node:
    def __init__(self, op, children=()):
        self.op, self.children = op, list(children)
        self.obj = None
        self.log = None      # for leaves


def build(ops, st, depth):
    if st["budget"] <= 0:
        raise ch.Prune()
    st["budget"] -= 1
    i = st["i"]
    st["i"] += 1
    op = ch.sel("o%d" % i, ops[i], NLEAF if depth == 0 else NOPS)
    st["ops"].append(op)
    n = Node(op)
    if op == 0:
        n.obj = doubles.StreamResult()
        n.log = n.obj._events
    elif op == 1:
        n.log = []
        n.obj = StreamFailFast(lambda: n.log.append("on_error"))
    elif op == 2:
        q = ListQueue()
        n.obj = StreamToQueue(q, "0")
        n.log = q.items
    elif op == 3:
        n.children = [build(ops, st, depth - 1)]
        n.obj = TimestampingStreamResult(n.children[0].obj)
    elif op < 7:
        k = op - 3
        n.children = [build(ops, st, depth - 1) for _ in range(k)]
        n.obj = CopyStreamResult([c.obj for c in n.children])
    else:
        v, k = divmod(op - 7, 3)
        n.children = [build(ops, st, depth - 1) for _ in range(k + 1)]
        add, disc = TAGGER[v]
        n.obj = StreamTagger([c.obj for c in n.children], add=add, discard=disc)
    return n


def leaves(n):
    if not n.children and n.op < NLEAF:
        return [n]
    out = []
    for c in n.children:
        out += leaves(c)
    return out


def describe(n):
    if n.op < NLEAF:
        return OPNAMES[n.op]
    return "%s[%s]" % (OPNAMES[n.op].split("/")[0], ", ".join(describe(c) for c in n.children))


def expect(n, ev, out):
    """Append to out[id(leaf)] what leaf must receive for event ev (dict or 'start'/'stop')."""
    if n.op == 0:
        out.setdefault(id(n), []).append(ev)
    elif n.op == 1:
        if ev not in ("start", "stop") and ev["test_status"] in ("fail", "uxsuccess"):
            out.setdefault(id(n), []).append("on_error")
        else:
            out.setdefault(id(n), [])
    elif n.op == 2:
        if ev in ("start", "stop"):
            out.setdefault(id(n), []).append(ev)
        else:
            e = dict(ev)
            rc = e["route_code"]
            e["route_code"] = "0" if rc is None else "0/" + rc
            out.setdefault(id(n), []).append(e)
    elif n.op == 3:
        if ev not in ("start", "stop") and ev["timestamp"] is None:
            ev = dict(ev, timestamp=NOW)
        expect(n.children[0], ev, out)
    elif n.op < 7:
        for c in n.children:
            expect(c, ev, out)
    else:
        v = (n.op - 7) // 3
        if ev not in ("start", "stop"):
            add, disc = TAGGER[v]
            tags = (set(ev["test_tags"] or ()) | set(add)) - set(disc)
            ev = dict(ev, test_tags=tags or None)
        for c in n.children:
            expect(c, ev, out)


FIELDS = ["test_id", "test_status", "test_tags", "runnable", "file_name", "file_bytes", "eof", "mime_type",
          "route_code", "timestamp"]


def same_event(got, want, is_queue):
    if want in ("start", "stop"):
        name = "startTestRun" if want == "start" else "stopTestRun"
        if is_queue:
            return isinstance(got, dict) and got.get("event") == name
        return tuple(got) == (name,)
    if is_queue:
        if not isinstance(got, dict) or got.get("event") != "status":
            return False
        g = got
    else:
        if got[0] != "status":
            return False
        g = got._asdict()
    for f in FIELDS:
        a, b = g[f], want[f]
        if f == "test_tags":
            if (a is None) != (b is None):
                return False
            if a is not None and set(a) != set(b):
                return False
        elif f in ("file_bytes", "timestamp", "runnable", "eof"):
            # id(): CrossHair's interception of the `is` operator realises symbolic bools (= forks)
            if id(a) != id(b) and a != b:
                return False
        elif a != b:
            return False
    return True


STATUSES = [None, "fail", "success", "uxsuccess"]
TAGS = [None, "set:t", "frozenset:t", "set:", "set:x,t"]
ROUTES = [None, "1"]


def mk_tags(spec):
    if spec is None:
        return None
    kind, vals = spec.split(":")
    vals = [v for v in vals.split(",") if v]
    return set(vals) if kind == "set" else frozenset(vals)


def run_tree(root, evspecs):
    saved = real.datetime
    real.datetime = FakeDatetime
    try:
        problems = []
        expected = {}
        root.obj.startTestRun()
        expect(root, "start", expected)
        for (si, ti, has_ts, ri, fb, runnable, eof) in evspecs:
            tags = mk_tags(TAGS[ti])
            snapshot = None if tags is None else (type(tags), set(tags))
            ts = "<supplied-ts>" if has_ts else None
            ev = dict(test_id="id", test_status=STATUSES[si], test_tags=tags, runnable=runnable, file_name="f",
                      file_bytes=fb, eof=eof, mime_type="m/t", route_code=ROUTES[ri], timestamp=ts)
            want_ev = dict(ev, test_tags=None if tags is None else set(tags))
            expect(root, want_ev, expected)
            try:
                root.obj.status(**ev)
            except Exception as e:
                problems.append("status(test_tags=%r) raised %s: %s" % (TAGS[ti], type(e).__name__, e))
                continue
            if snapshot is not None and (type(tags), set(tags)) != snapshot:
                problems.append("caller's test_tags object was mutated: %r -> %r" % (snapshot[1], set(tags)))
        root.obj.stopTestRun()
        expect(root, "stop", expected)
        for leaf in leaves(root):
            want = expected.get(id(leaf), [])
            got = list(leaf.log)
            if leaf.op == 1:
                if got != want:
                    problems.append("failure callback fired %r, expected %r" % (got, want))
                continue
            if problems:
                continue
            if len(got) != len(want) or not all(same_event(g, w, leaf.op == 2) for g, w in zip(got, want)):
                problems.append("%s received %r, expected %r" % (OPNAMES[leaf.op], got, want))
        return problems
    finally:
        real.datetime = saved


def h_tree(o0: int, o1: int, o2: int, o3: int, o4: int, budget: int, depth: int,
           si: int, ti: int, has_ts: bool, ri: int, fb: bytes, runnable: bool = True, eof: bool = False) -> bool:
    """
    pre: 0 <= o0 < 16 and 0 <= o1 < 16 and 0 <= o2 < 16 and 0 <= o3 < 16 and 0 <= o4 < 16
    pre: 1 <= budget <= 5 and 0 <= depth <= 3 and 0 <= si < 4 and 0 <= ti < 5 and 0 <= ri < 2 and len(fb) <= 1
    post: _
    """
    try:
        b = ch.sel("budget", budget, 6)
        d = ch.sel("depth", depth, 4)
        st = {"i": 0, "budget": b, "ops": []}
        root = build([o0, o1, o2, o3, o4], st, d)
        s, t, r = ch.sel("si", si, 4), ch.sel("ti", ti, 5), ch.sel("ri", ri, 2)
        ht = ch.cbool(has_ts)
    except (ch.Prune, IndexError):
        return True
    v = dict(tree=describe(root), status=STATUSES[s], tags=TAGS[t], ts=ht, route=ROUTES[r])
    if ch.excluded(v):
        return True
    problems = run_tree(root, [(s, t, ht, r, fb, runnable, eof)])
    ch.LAST["problems"] = problems
    return ch.finish(not problems, v, nontrivial=len(st["ops"]) >= 2, sym=("file_bytes", "runnable", "eof"))


SEQ_EV = [(1, 1, False, 0), (2, 0, True, 1), (0, 4, False, 0)]


def h_seq(o0: int, o1: int, o2: int, o3: int, budget: int, depth: int, e0: int, e1: int, e2: int, n: int) -> bool:
    """
    pre: 0 <= o0 < 16 and 0 <= o1 < 16 and 0 <= o2 < 16 and 0 <= o3 < 16
    pre: 1 <= budget <= 4 and 0 <= depth <= 3 and 0 <= e0 < 3 and 0 <= e1 < 3 and 0 <= e2 < 3 and 0 <= n <= 3
    post: _
    """
    try:
        b = ch.sel("budget", budget, 5)
        d = ch.sel("depth", depth, 4)
        st = {"i": 0, "budget": b, "ops": []}
        root = build([o0, o1, o2, o3], st, d)
        nn = ch.sel("n", n, 4)
        raw = [e0, e1, e2]
        es = [ch.sel("e%d" % k, raw[k], 3) for k in range(nn)]
    except (ch.Prune, IndexError):
        return True
    v = dict(tree=describe(root), events=tuple(es))
    if ch.excluded(v):
        return True
    problems = run_tree(root, [SEQ_EV[e] + (b"z", True, False) for e in es])
    ch.LAST["problems"] = problems
    return ch.finish(not problems, v, nontrivial=len(st["ops"]) >= 2 and nn >= 2)


def _tree_shards(tier):
    b, d = (3, 2) if tier == "quick" else (4, 3)
    out = [({"budget": b, "depth": d, "o0": o}, 900) for o in range(4)]
    for o in range(4, NOPS):
        out += [({"budget": b, "depth": d, "o0": o, "ti": t}, 1800) for t in range(5)]
    return out


def _seq_shards(tier):
    b, d = (3, 2) if tier == "quick" else (4, 3)
    return [({"budget": b, "depth": d, "o0": o}, 1800) for o in range(NOPS)]


def _rebuild(ops, budget, depth):
    saved = dict(ch.FIX)
    ch.FIX = {}
    try:
        st = {"i": 0, "budget": budget, "ops": []}
        return build(list(ops), st, depth)
    finally:
        ch.FIX = saved


def _describe_tree(o0, o1, o2, o3, o4, budget, depth, si, ti, has_ts, ri, fb, runnable=True, eof=False):
    root = _rebuild([o0, o1, o2, o3, o4], budget, depth)
    return {"tree": describe(root), "event": dict(status=STATUSES[si], tags=TAGS[ti], ts=has_ts, route=ROUTES[ri], runnable=runnable, eof=eof),
            "problems": run_tree(root, [(si, ti, has_ts, ri, fb, runnable, eof)])}


def _describe_seq(o0, o1, o2, o3, budget, depth, e0, e1, e2, n):
    root = _rebuild([o0, o1, o2, o3], budget, depth)
    return {"tree": describe(root), "events": [e0, e1, e2][:n],
            "problems": run_tree(root, [SEQ_EV[e] + (b"z", True, False) for e in [e0, e1, e2][:n]])}


HARNESSES = [
    Harness("tree", h_tree, _tree_shards,
            bounds={"quick": "every decorator tree with <= 3 nodes (depth <= 2) over {recording sink, StreamFailFast, StreamToQueue('0'), "
                             "TimestampingStreamResult, CopyStreamResult with 1..3 targets, StreamTagger (+x | -t | +{u,t} -t, i.e. overlapping add/discard) with 1..3 targets} "
                             "x one status event: status {None, fail, success, uxsuccess} x tags {None, set{t}, frozenset{t}, set(), "
                             "set{x,t}} x timestamp supplied or not x route code {None, 1} x a symbolic file chunk x symbolic runnable / eof flags; clock stubbed",
                    "thorough": "<= 4 nodes (depth <= 3)"},
            rule="non-trivial = at least one decorator above a leaf", sym=("fb", "runnable", "eof"),
            twin_fix={"budget": 3, "depth": 2, "o0": 5, "ti": 1},
            fidelity=lambda seed: [(5, 0, 0, 0, 0, 3, 2, s, t, ts, r, b"q", r == 0, ts) for s in range(4) for t in (0, 3) for ts in (False, True) for r in (0, 1)],
            observe=_describe_tree, describe=_describe_tree,
            assumptions=["datetime.datetime.now in testtools.testresult.real is stubbed with a recognisable token"]),
    Harness("seq", h_seq, _seq_shards,
            bounds={"quick": "trees with <= 3 nodes x every sequence of <= 3 events over a 3-letter alphabet (order preservation, "
                             "startTestRun/stopTestRun once per sink, failure callback count)",
                    "thorough": "<= 4 nodes"},
            rule="non-trivial = a decorator and at least 2 events", twin_fix={"budget": 3, "depth": 2, "o0": 5},
            describe=_describe_seq),
]
OUTSIDE = ["a sink that itself mutates the objects it receives (CopyStreamResult hands the same argument objects to every target)",
           "trees with more nodes than the bound"]


def e2_lemmas(tier):
    """E2 (zproxy): the same real functions on proxies carrying SMT terms - unbounded tag sets / strings."""
    from vf import e2
    return e2.summarise(e2.c11_lemmas())


def e2_replay(name, model):
    from vf import e2
    for l in e2.c11_lemmas():
        if l["name"] == name:
            return l["verdict"] != "REFUTED", l
    return True, {"note": "lemma not found"}
