"""C14 - Deferred-returning tests succeed iff all completed cleanly; reactor left clean."""
import testtools
from twisted.internet import defer
from twisted.python import log

from testtools.testresult import doubles
from testtools.twistedsupport import AsynchronousDeferredRunTest, AsynchronousDeferredRunTestForBrokenTwisted
from testtools.twistedsupport._runtest import _get_global_publisher_and_observers

from vf import ch
from vf.driver import Harness
from vf.vreactor import VReactor, WouldBlockForever

PROPERTY = "C14"
BEH = ["return", "raise error", "Deferred fires after d", "Deferred fails after d", "Deferred never fires",
       "leaves a delayed call", "log.err", "drops a failed Deferred", "skip", "fail",
       "log.err then flush_logged_errors(that type)", "log.err of two types, flush_logged_errors(one type)"]
CLEAN = (0, 2, 10)
SETUP_RETURNS = (0, 2, 5, 6, 7, 10, 11)      # setUp returned normally (possibly leaving a mess): body and tearDown run
INF = 999


def behave(case, reactor, k, d):
    if k == 0:
        return None
    if k == 1:
        raise RuntimeError("stage error")
    if k in (2, 3, 4):
        dd = defer.Deferred()
        if k == 2:
            if d == 0:
                dd.callback(None)
            else:
                reactor.callLater(d, dd.callback, None)
        elif k == 3:
            if d == 0:
                dd.errback(RuntimeError("async error"))
            else:
                reactor.callLater(d, dd.errback, RuntimeError("async error"))
        return dd
    if k == 5:
        reactor.callLater(50, lambda: None)
        return None
    if k == 6:
        try:
            raise ZeroDivisionError("logged")
        except ZeroDivisionError:
            log.err()
        return None
    if k == 7:
        defer.fail(RuntimeError("dropped"))
        return None
    if k in (10, 11):
        from testtools.twistedsupport import flush_logged_errors
        try:
            raise ZeroDivisionError("logged-and-flushed")
        except ZeroDivisionError:
            log.err()
        if k == 11:
            try:
                raise RuntimeError("logged, not flushed")
            except RuntimeError:
                log.err()
        flush_logged_errors(ZeroDivisionError)       # declares only the ZeroDivisionError as expected
        return None
    if k == 8:
        case.skipTest("skipping")
    if k == 9:
        case.fail("assertion")


def run_async(su, body, td, c1, c2, ncl, d, timeout, stop_at, broken, suppress, store):
    # paths share one process: collect garbage of earlier paths now (a late __del__ of a failed Deferred
    # would log an error into this run) and start from an empty global error observer
    import gc
    from testtools.twistedsupport import _runtest
    gc.collect(1)
    _runtest._log_observer.flushErrors()
    reactor = VReactor()
    stage_log = []
    cl = [c1, c2][:ncl]
    factory = (AsynchronousDeferredRunTestForBrokenTwisted if broken else AsynchronousDeferredRunTest).make_factory(
        reactor=reactor, timeout=timeout, suppress_twisted_logging=suppress, store_twisted_logs=store)

    class Gen(testtools.TestCase):
        run_tests_with = factory

        def setUp(self):
            super().setUp()
            stage_log.append(("setUp", reactor.seconds()))
            for i, k in enumerate(cl):
                self.addCleanup(self._cl, i, k)
            return behave(self, reactor, su, d)

        def _cl(self, i, k):
            stage_log.append(("cleanup%d" % i, reactor.seconds()))
            return behave(self, reactor, k, d)

        def test_it(self):
            stage_log.append(("body", reactor.seconds()))
            return behave(self, reactor, body, d)

        def tearDown(self):
            stage_log.append(("tearDown", reactor.seconds()))
            super().tearDown()
            return behave(self, reactor, td, d)

    case = Gen("test_it")
    result = doubles.ExtendedTestResult()
    pub, observers_before = _get_global_publisher_and_observers()
    legacy_before = list(log.theLogPublisher.observers)
    if stop_at < 4:
        reactor.interrupt_at(stop_at)
    exc = None
    try:
        case.run(result)
    except WouldBlockForever as e:
        exc = e
    except Exception as e:
        exc = e
    problems = []
    if exc is not None:
        problems.append("run() raised %r" % (exc,))
    # pending stop request is ours, not the test's
    names = [e[0] for e in result._events]
    outcome = [n for n in names if n.startswith("add")]
    if names[:1] != ["startTest"] or names[-1:] != ["stopTest"] or len(outcome) != 1:
        problems.append("not bracketed with exactly one outcome: %r" % (names,))
        return {"events": names, "stages": stage_log, "problems": problems}
    outcome = outcome[0]
    # ---- reference ------------------------------------------------------------------------------------
    def dur(k):
        return d if k in (2, 3) else (INF if k == 4 else 0)
    seq = [("setUp", su)]
    if su in SETUP_RETURNS:
        seq += [("body", body), ("tearDown", td)]
    seq += [("cleanup%d" % i, cl[i]) for i in reversed(range(len(cl)))]
    t = 0
    exp_log = []
    complete = INF
    for name, k in seq:
        exp_log.append((name, t))
        if dur(k) == INF:
            t = INF
            break
        t += dur(k)
    else:
        complete = t
    s = stop_at if stop_at < 4 else INF
    first = min(complete, timeout, s)
    hung = complete == INF
    modes = set()
    if complete == first:
        modes.add("complete")
    if timeout == first:
        modes.add("timeout")
    if s == first:
        modes.add("interrupt")
    if complete == 0:
        modes = {"complete"}       # everything synchronous: done before any scheduled call
    executed = [k for _n, k in seq]
    # logged errors: log.err adds one; flush_logged_errors(ZeroDivisionError) removes every ZeroDivisionError logged so far
    unflushed = []
    for k in executed:
        if k == 6:
            unflushed.append("ZeroDivisionError")
        elif k in (10, 11):
            unflushed.append("ZeroDivisionError")
            if k == 11:
                unflushed.append("RuntimeError")
            unflushed = [t for t in unflushed if t != "ZeroDivisionError"]
    all_clean = all(k in CLEAN or k in (6, 11) for k in executed) and not unflushed
    ok_modes = []
    if "complete" in modes:
        want_success = all_clean
        if (outcome == "addSuccess") == want_success:
            ok_modes.append("complete")
    if "timeout" in modes and outcome == "addError":
        ok_modes.append("timeout")
    if "interrupt" in modes and outcome == "addError" and result.shouldStop:
        ok_modes.append("interrupt")
    if not ok_modes:
        problems.append("outcome %s (shouldStop=%s) does not fit any admissible course %r: stages %r, d=%s, timeout=%s, stop at %s" % (
            outcome, result.shouldStop, sorted(modes), [(n, BEH[k]) for n, k in seq], d, timeout, None if s == INF else s))
    if outcome == "addSuccess" and not all_clean:
        problems.append("reported success although a stage was not clean")
    # stage order / each stage starts only after the previous one's Deferred fired
    got_log = [(n, int(tm)) for n, tm in stage_log]
    want_prefix = [(n, tm) for n, tm in exp_log if tm != INF]
    if "complete" in ok_modes and got_log != want_prefix:
        problems.append("stage log %r, expected %r" % (got_log, want_prefix))
    elif got_log != want_prefix[:len(got_log)]:
        problems.append("stage log %r is not a prefix of %r" % (got_log, want_prefix))
    # after every run: reactor clean, observers restored
    pending = [c for c in reactor.getDelayedCalls()]
    if pending:
        problems.append("reactor has pending calls after the run: %r" % (pending,))
    _pub, observers_after = _get_global_publisher_and_observers()
    if observers_after != observers_before or list(log.theLogPublisher.observers) != legacy_before:
        problems.append("Twisted log observers not restored")
    # a following, completely clean test on the same runner configuration must succeed: nothing (logged errors,
    # observers, junk) may leak from one run into the next
    class Clean(testtools.TestCase):
        run_tests_with = (AsynchronousDeferredRunTestForBrokenTwisted if broken else AsynchronousDeferredRunTest).make_factory(
            reactor=VReactor(), timeout=timeout, suppress_twisted_logging=suppress, store_twisted_logs=store)

        def test_clean(self):
            pass
    r2 = doubles.ExtendedTestResult()
    try:
        Clean("test_clean").run(r2)
        n2 = [e[0] for e in r2._events]
        if n2 != ["startTest", "addSuccess", "stopTest"]:
            problems.append("a clean test run right afterwards was reported as %r" % (n2,))
    except Exception as e:
        problems.append("a clean test run right afterwards raised %r" % (e,))
    det = [e for e in result._events if e[0].startswith("add")][0]
    keys = sorted(det[2]) if len(det) > 2 and isinstance(det[2], dict) else []
    if store and "twisted-log" not in keys:
        problems.append("twisted-log detail missing although store_twisted_logs is set")
    return {"events": names, "outcome": outcome, "stages": got_log, "modes": sorted(modes), "detail_keys": keys,
            "problems": problems}


CFG = [(False, True, True), (True, False, True), (False, False, False), (True, True, False)]


def h_async(su: int, body: int, td: int, c1: int, c2: int, ncl: int, d: int, timeout: int, stop_at: int,
            cfg: int, mf: int) -> bool:
    """
    pre: 0 <= su < 12 and 0 <= body < 12 and 0 <= td < 12 and 0 <= c1 < 12 and 0 <= c2 < 12 and 0 <= ncl <= 2
    pre: 0 <= d <= 2 and 1 <= timeout <= 3 and 0 <= stop_at <= 4 and 0 <= cfg < 4 and 0 <= mf < 5
    post: _
    """
    try:
        budget = [ch.sel("mf", mf, 5)]

        def kind(name, x):
            if budget[0] <= 0:
                return 0
            k = ch.sel(name, x, len(BEH))
            if k:
                budget[0] -= 1
            return k
        v = {"mf": budget[0]}
        v["su"] = kind("su", su)
        v["ncl"] = ch.sel("ncl", ncl, 3)
        if v["su"] in SETUP_RETURNS:
            v["body"], v["td"] = kind("body", body), kind("td", td)
        else:
            v["body"] = v["td"] = 0
        v["c1"] = kind("c1", c1) if v["ncl"] >= 1 else 0
        v["c2"] = kind("c2", c2) if v["ncl"] >= 2 else 0
        uses_d = any(v[k] in (2, 3) for k in ("su", "body", "td", "c1", "c2"))
        v["d"] = ch.sel("d", d, 3) if uses_d else 0
        v["timeout"] = ch.conc(timeout - 1, 3) + 1 if "timeout" not in ch.FIX else ch.FIX["timeout"]
        v["stop_at"] = ch.sel("stop_at", stop_at, 5)
        v["cfg"] = ch.sel("cfg", cfg, 4)
    except ch.Prune:
        return True
    if ch.excluded(v):
        return True
    broken, suppress, store = CFG[v["cfg"]]
    o = run_async(v["su"], v["body"], v["td"], v["c1"], v["c2"], v["ncl"], v["d"], v["timeout"], v["stop_at"],
                  broken, suppress, store)
    ch.LAST.update(o)
    return ch.finish(not o["problems"], v, nontrivial=any(v[k] for k in ("su", "body", "td", "c1", "c2")))


def _shards(tier):
    out = []
    if tier == "quick":
        for cfg in range(3):
            for su in range(len(BEH)):
                out.append(({"mf": 2, "cfg": cfg, "su": su, "timeout": 2, "ncl": 1}, 1800))
        out += [({"mf": 1, "cfg": 3, "timeout": t, "ncl": n}, 1800) for t in (1, 3) for n in (0, 2)]
        # two cleanups with a failing / Deferred-failing setUp: the cleanup chain must still be awaited
        out += [({"mf": 2, "cfg": 0, "su": su, "timeout": 3, "ncl": 2}, 1800) for su in (1, 3)]
    else:
        for cfg in range(4):
            for su in range(len(BEH)):
                for t in (1, 2, 3):
                    out.append(({"mf": 2, "cfg": cfg, "su": su, "timeout": t, "ncl": 1}, 3000))
                out.append(({"mf": 2, "cfg": cfg, "su": su, "timeout": 2, "ncl": 2}, 3000))
    return out


def _describe(su, body, td, c1, c2, ncl, d, timeout, stop_at, cfg, mf):
    broken, suppress, store = CFG[cfg]
    if su not in SETUP_RETURNS:
        body = td = 0
    o = run_async(su, body, td, c1 if ncl >= 1 else 0, c2 if ncl >= 2 else 0, ncl, d, timeout, stop_at, broken, suppress, store)
    o["program"] = dict(setUp=BEH[su], body=BEH[body], tearDown=BEH[td], cleanups=[BEH[c] for c in [c1, c2][:ncl]], d=d,
                        timeout=timeout, stop_at=None if stop_at == 4 else stop_at,
                        runner="ForBrokenTwisted" if broken else "plain", suppress_twisted_logging=suppress,
                        store_twisted_logs=store)
    return o


HARNESSES = [
    Harness("async", h_async, _shards,
            bounds={"quick": "setUp/body/tearDown/0..2 cleanups over {return, raise, Deferred fires / fails after d, never fires, leaves a "
                             "delayed call, log.err, drops a failed Deferred, skip, fail, log.err + selective flush (one type logged / two types logged)} with at most 2 non-returning stages (1 cleanup; "
                             "and at most 1 with 0 or 2 cleanups), d in 0..2, timeout 2 (1 and 3 in the second group), stop request at "
                             "0..3 or never, runner/logging configurations {plain+suppress+store, ForBrokenTwisted+store, plain, "
                             "ForBrokenTwisted+suppress}; failing setUp with 2 cleanups; after every program a clean test is run and must succeed; "
                             "virtual-time reactor",
                    "thorough": "all four configurations x timeouts 1..3 with one cleanup, and two cleanups at timeout 2"},
            rule="non-trivial = some stage does not simply return",
            twin_fix={"mf": 2, "cfg": 0, "su": 0, "timeout": 2, "ncl": 1},
            fidelity=lambda seed: [(s, b, 0, c, 0, 1, dd, 2, st, cf, 3) for s in (0, 2) for b in range(10) for c in (0, 3, 5) for dd in (0, 1)
                                   for st in (4, 1) for cf in (0, 2)],
            observe=lambda *a: (lambda o: (o["events"], o.get("stages"), o["problems"]))(_describe(*a)),
            describe=_describe,
            assumptions=["reactor = VReactor (virtual time); a stop request is a delayed call invoking reactor.stop()",
                         "unhandled failed Deferreds are detected through CPython reference counting at the end of the stage",
                         "ties between completion, timeout and stop request admit either course"]),
]
OUTSIDE = ["the real reactor and wall-clock timing", "garbage-collection timing other than CPython's immediate refcounting",
           "more than 2 cleanups; delays beyond 2 virtual seconds"]
