"""C09 - TestResult -> StreamResult -> TestResult conversion preserves every test."""
import sys

from testtools import PlaceHolder
from testtools.content import Content
from testtools.content_type import ContentType
from testtools.testresult import doubles
from testtools.testresult.real import CopyStreamResult, ExtendedToStreamDecorator, StreamToExtendedDecorator

from vf import ch, programs as P
from vf.driver import Harness

PROPERTY = "C09"
OUTCOMES = ["success", "failure", "error", "skip", "xfail", "uxsuccess"]
CTYPES = [ContentType("application", "octet-stream"),
          ContentType("text", "plain", {"charset": "utf8"}),
          ContentType("text", "x-traceback", {"charset": "utf8", "language": "python"}),
          ContentType("application", "json"),
          ContentType("video", "x-test", {"codecs": "avc1.4d, mp4a.40"})]      # a comma inside a non-charset parameter
TEXT_CHUNKS = [["é".encode("utf8"), b"x\n", b""], [b"tb line\n", "ü".encode("utf8"), b"end"], [b'{"k": ', b"", b"1}"],
               [b"\x00\x01", b"\xff", b"\x00\x01"]]
NAMES = ["d", "détail", "traceback-1", "reason2"]
REASONS = ["plain reason", "raison é"]
FINAL_STATUS = {"success": "success", "failure": "fail", "error": "fail", "skip": "skip", "xfail": "xfail",
                "uxsuccess": "uxsuccess"}
REPLAYED = {"success": "addSuccess", "failure": "addFailure", "error": "addFailure", "skip": "addSkip",
            "xfail": "addExpectedFailure", "uxsuccess": "addUnexpectedSuccess"}


def _exc_info():
    try:
        raise RuntimeError("boom-exc")
    except RuntimeError:
        return sys.exc_info()


def _norm(mime):
    return mime.replace(" ", "").replace('"', "")


def joined(chunks):
    out = b""
    for c in chunks:
        out = out + c
    return out


def run_roundtrip(tests, use_times, tagmode, time_tokens):
    """tests: list of dict(outcome, form ('exc'|'details'|'plain'), details=[(name, ctype_idx, [chunks])], reason)."""
    sink = doubles.StreamResult()
    final = doubles.ExtendedTestResult()
    conv = ExtendedToStreamDecorator(CopyStreamResult([sink, StreamToExtendedDecorator(final)]))
    problems = []
    conv.startTestRun()
    if tagmode & 1:
        conv.tags({"g"}, set())
    objs = []
    for n, t in enumerate(tests):
        test = PlaceHolder(t.get("id") or "tést-%d" % n)
        objs.append(test)
        if use_times:
            conv.time(time_tokens[2 * n])
        conv.startTest(test)
        if tagmode & 2:
            conv.tags({"l%d" % n}, set())
        if use_times:
            conv.time(time_tokens[2 * n + 1])
        method = getattr(conv, P.EVENT[t["outcome"]])
        details = None
        if t["form"] in ("details", "both"):
            details = {}
            for name, cti, chunks in t["details"]:
                details[name] = Content(CTYPES[cti], (lambda c: (lambda: list(c)))(chunks))
        try:
            if t["form"] == "both":
                conv.addSkip(test, t["reason"], details=details)      # reason and details supplied together
            elif t["form"] == "details":
                method(test, details=details)
            elif t["outcome"] == "skip":
                conv.addSkip(test, t["reason"])
            elif t["outcome"] in ("success", "uxsuccess"):
                method(test)
            else:
                method(test, _exc_info())
            conv.stopTest(test)
        except Exception as e:
            problems.append("converter raised %s: %s" % (type(e).__name__, e))
            return {"problems": problems}
    conv.stopTestRun()
    # ---- the stream in between --------------------------------------------------------------
    evs = [e for e in sink._events if e[0] == "status"]
    pos = 0
    for n, t in enumerate(tests):
        tid = objs[n].id()
        tags = ({"g"} if tagmode & 1 else set()) | ({"l%d" % n} if tagmode & 2 else set())
        mine = [e for e in evs if e.test_id == tid]
        sharing = [m for m in range(len(tests)) if objs[m].id() == tid]
        if len(sharing) > 1:
            # the same id reported more than once in this run: the k-th report's events run from its k-th 'inprogress' event
            starts = [i for i, e in enumerate(mine) if e.test_status == "inprogress" and e.file_name is None]
            k = sharing.index(n)
            if len(starts) != len(sharing):
                problems.append("test %d: %d 'inprogress' events for %d reports of id %s" % (n, len(starts), len(sharing), tid))
                continue
            mine = mine[starts[k]:(starts[k + 1] if k + 1 < len(starts) else len(mine))]
        if not mine or mine[0].test_status != "inprogress" or mine[0].file_name is not None:
            problems.append("test %d: no 'inprogress' event first" % n)
            continue
        if use_times and mine[0].timestamp is not time_tokens[2 * n]:
            problems.append("test %d: inprogress event does not carry the supplied start time" % n)
        rest = mine[1:]
        if not rest or rest[-1].test_status != FINAL_STATUS[t["outcome"]] or rest[-1].file_name is not None:
            problems.append("test %d: last event is not the final status %s: %r" % (n, FINAL_STATUS[t["outcome"]], rest[-1:] ))
            continue
        if sum(1 for e in rest if e.test_status is not None) != 1:
            problems.append("test %d: more than one status event after inprogress" % n)
        if set(rest[-1].test_tags or ()) != tags:
            problems.append("test %d: final status tags %r, expected %r" % (n, rest[-1].test_tags, tags))
        if use_times and rest[-1].timestamp is not time_tokens[2 * n + 1]:
            problems.append("test %d: final event does not carry the supplied end time" % n)
        files = rest[:-1]
        expect = []
        if t["form"] in ("details", "both"):
            for name, cti, chunks in t["details"]:
                cs = list(chunks) or [b""]
                for k, c in enumerate(cs):
                    expect.append((name, c, k == len(cs) - 1, repr(CTYPES[cti])))
        elif t["form"] == "exc" and t["outcome"] not in ("success", "uxsuccess", "skip"):
            expect = None      # one traceback attachment, checked below
        if t["form"] == "both":
            expect.append(("reason", t["reason"].encode("utf8"), True, 'text/plain; charset="utf8"'))
        elif t["form"] != "details" and t["outcome"] == "skip":
            expect = [("reason", t["reason"].encode("utf8"), True, 'text/plain; charset="utf8"')]
        if expect is None:
            if not files or any(e.file_name != "traceback" for e in files) or not files[-1].eof or any(e.eof for e in files[:-1]):
                problems.append("test %d: traceback attachment events malformed" % n)
        else:
            if len(files) != len(expect):
                problems.append("test %d: %d file events, expected %d" % (n, len(files), len(expect)))
            else:
                for e, (name, c, eof, mime) in zip(files, expect):
                    if e.file_name != name or e.eof != eof or _norm(e.mime_type) != _norm(mime):
                        problems.append("test %d: file event %r/%r/%r, expected %r/%r/%r" % (n, e.file_name, e.eof, e.mime_type, name, eof, mime))
                    elif e.file_bytes != c:
                        problems.append("test %d: chunk bytes of %s differ" % (n, name))
    # ---- the final extended result -----------------------------------------------------------
    log = final._events
    brackets = []
    cur = None
    for e in log:
        if e[0] == "startTest":
            cur = {"id": e[1].id(), "outcome": None, "payload": None, "tags": None, "times": []}
        elif e[0].startswith("add") and cur is not None:
            cur["outcome"] = e[0] if cur["outcome"] is None else "TWO"
            cur["payload"] = e[2] if len(e) > 2 else None
            cur["tags"] = set(final.current_tags) if False else None
        elif e[0] == "stopTest" and cur is not None:
            brackets.append(cur)
            cur = None
    if len(brackets) != len(tests):
        problems.append("final result saw %d tests, expected %d (%r)" % (len(brackets), len(tests), [e[0] for e in log]))
        return {"problems": problems}
    times = [e[1] for e in log if e[0] == "time"]
    if use_times:
        want_t = []
        for n in range(len(tests)):
            want_t += [time_tokens[2 * n], time_tokens[2 * n + 1]]
        if len(times) != len(want_t) or any(a is not b for a, b in zip(times, want_t)):
            problems.append("final result time() calls differ from the supplied times")
    for n, (b, t) in enumerate(zip(brackets, tests)):
        if b["id"] != objs[n].id() or b["outcome"] != REPLAYED[t["outcome"]]:
            problems.append("test %d replayed as %s/%s, expected %s" % (n, b["id"], b["outcome"], REPLAYED[t["outcome"]]))
            continue
        det = b["payload"] if isinstance(b["payload"], dict) else {}
        if t["form"] == "both" and ("reason" not in det or det["reason"].as_text() != t["reason"]):
            problems.append("test %d: skip reason lost when details were supplied as well" % n)
        if t["form"] in ("details", "both"):
            for name, cti, chunks in t["details"]:
                want = joined(chunks)
                if len(want) == 0:
                    continue
                if name not in det:
                    problems.append("test %d: detail %r lost" % (n, name))
                    continue
                if joined(list(det[name].iter_bytes())) != want:
                    problems.append("test %d: detail %r bytes differ" % (n, name))
                if det[name].content_type != CTYPES[cti]:
                    problems.append("test %d: detail %r content type %r, expected %r" % (n, name, det[name].content_type, CTYPES[cti]))
        elif t["outcome"] == "skip":
            if "reason" not in det or det["reason"].as_text() != t["reason"]:
                problems.append("test %d: skip reason lost" % n)
        elif t["outcome"] in ("failure", "error", "xfail"):
            if "traceback" not in det or "boom-exc" not in det["traceback"].as_text():
                problems.append("test %d: traceback lost" % n)
    # tags seen by the final result during each test
    tagev = [e for e in log if e[0] == "tags"]
    for n in range(len(tests)):
        tags = ({"g"} if tagmode & 1 else set()) | ({"l%d" % n} if tagmode & 2 else set())
        adds = [set(e[1]) for e in tagev if set(e[1])]
        if tags and tags not in adds:
            problems.append("test %d: final result never received tags %r" % (n, tags))
    return {"problems": problems, "stream": [(e.test_id, e.test_status, e.file_name, e.eof) for e in evs]}


def pick_details(pre, nd, sel_ct, sel_nc, raw_chunks, name_rot):
    out = []
    for j in range(nd):
        cti = ch.sel("%sct%d" % (pre, j), sel_ct[j], len(CTYPES))
        nc = ch.sel("%snc%d" % (pre, j), sel_nc[j], 4)
        if cti == 0:
            chunks = raw_chunks[3 * j:3 * j + nc]
        else:
            chunks = TEXT_CHUNKS[cti - 1][:nc]
        out.append((NAMES[(name_rot + j) % len(NAMES)], cti, list(chunks)))
    return out


def h_one(o: int, form: int, nd: int, ct0: int, nc0: int, ct1: int, nc1: int, b0: bytes, b1: bytes, b2: bytes,
          b3: bytes, b4: bytes, b5: bytes, name_rot: int, use_times: bool, tagmode: int, t0: int, t1: int) -> bool:
    """
    pre: 0 <= o < 6 and 0 <= form < 3 and 0 <= nd <= 2 and 0 <= ct0 < 5 and 0 <= ct1 < 5 and 0 <= nc0 < 4 and 0 <= nc1 < 4
    pre: len(b0) <= 1 and len(b1) <= 1 and len(b2) <= 1 and len(b3) <= 1 and len(b4) <= 1 and len(b5) <= 1
    pre: 0 <= name_rot < 4 and 0 <= tagmode < 4
    post: _
    """
    try:
        oi = ch.sel("o", o, 6)
        fm = ch.sel("form", form, 3)
        if fm == 2 and OUTCOMES[oi] != "skip":
            return True
        v = dict(o=oi, form=fm)
        if fm >= 1:
            ndd = ch.sel("nd", nd, 3)
            det = pick_details("", ndd, [ct0, ct1], [nc0, nc1], [b0, b1, b2, b3, b4, b5], ch.sel("name_rot", name_rot, 4))
            v["details"] = tuple((n, c, len(k)) for n, c, k in det)
        else:
            det = []
        ut = ch.cbool(use_times)
        tm = ch.sel("tagmode", tagmode, 4)
    except ch.Prune:
        return True
    v.update(use_times=ut, tagmode=tm)
    test = dict(outcome=OUTCOMES[oi], form="both" if fm == 2 else ("details" if fm == 1 else ("exc" if OUTCOMES[oi] in ("failure", "error", "xfail") else "plain")),
                details=det, reason=REASONS[tm % 2])
    res = run_roundtrip([test], ut, tm, [ch.V(t0), ch.V(t1)])
    ch.LAST.update(res)
    return ch.finish(not res["problems"], v, nontrivial=True, sym=("chunk bytes", "time tokens"))


def h_two(o0: int, o1: int, form: int, ct0: int, nc0: int, ct1: int, nc1: int, b0: bytes, b1: bytes, b3: bytes,
          b4: bytes, use_times: bool, tagmode: int, t0: int, t1: int, t2: int, t3: int, same_id: bool = False) -> bool:
    """
    pre: 0 <= o0 < 6 and 0 <= o1 < 6 and 0 <= form < 2 and 0 <= ct0 < 5 and 0 <= ct1 < 5 and 0 <= nc0 < 3 and 0 <= nc1 < 3
    pre: len(b0) <= 1 and len(b1) <= 1 and len(b3) <= 1 and len(b4) <= 1 and 0 <= tagmode < 4
    post: _
    """
    try:
        a, b = ch.sel("o0", o0, 6), ch.sel("o1", o1, 6)
        fm = ch.sel("form", form, 2)
        v = dict(o0=a, o1=b, form=fm)
        if fm == 1:
            d0 = pick_details("x", 1, [ct0], [nc0], [b0, b1, b""], 0)
            d1 = pick_details("y", 1, [ct1], [nc1], [b3, b4, b""], 0)
            v["details"] = tuple((n, c, len(k)) for n, c, k in d0 + d1)
        else:
            d0 = d1 = []
        ut = ch.cbool(use_times)
        tm = ch.sel("tagmode", tagmode, 4)
        # the same test id reported twice in one run (e.g. a re-run); explored without explicit times only (cost)
        sid = ch.cbool(same_id) if (fm == 1 and not ut) else False
    except ch.Prune:
        return True
    v.update(use_times=ut, tagmode=tm, same_id=sid)
    tests = []
    for oi, det in ((a, d0), (b, d1)):
        tests.append(dict(outcome=OUTCOMES[oi], form="details" if fm == 1 else ("exc" if OUTCOMES[oi] in ("failure", "error", "xfail") else "plain"),
                          details=det, reason=REASONS[0], id="tést-same" if sid else None))
    res = run_roundtrip(tests, ut, tm, [ch.V(t0), ch.V(t1), ch.V(t2), ch.V(t3)])
    ch.LAST.update(res)
    return ch.finish(not res["problems"], v, nontrivial=True, sym=("chunk bytes", "time tokens"))


def _one_shards(tier):
    out = [({"form": 0}, 600)]
    out += [({"form": 2, "o": 3, "nd": n}, 1800) for n in range(2)] + [({"form": 2, "o": 3, "nd": 2, "ct0": c, "name_rot": 0, "tagmode": 3}, 1800) for c in range(5)]
    for o in range(6):
        out.append(({"form": 1, "o": o, "nd": 0}, 600))
        out += [({"form": 1, "o": o, "nd": 1, "ct0": c}, 900) for c in range(5)]
        if tier == "quick":
            out += [({"form": 1, "o": o, "nd": 2, "ct0": c, "ct1": d, "name_rot": 0, "tagmode": 3}, 1800) for c in range(5) for d in range(5)]
        else:
            out += [({"form": 1, "o": o, "nd": 2, "ct0": c, "ct1": d, "tagmode": 3}, 3000) for c in range(5) for d in range(5)]
    return out


def _two_shards(tier):
    out = [({"form": 0}, 900)]
    if tier == "quick":
        out += [({"form": 1, "o0": a, "o1": b, "tagmode": 3}, 1800) for a in range(6) for b in range(6)]
    else:
        out += [({"form": 1, "o0": a, "o1": b, "tagmode": t}, 3000) for a in range(6) for b in range(6) for t in (0, 3)]
    return out


HARNESSES = [
    Harness("one", h_one, _one_shards,
            bounds={"quick": "one test: 6 outcomes x (exc_info/reason/plain | details | for skips: reason and details together); 0..2 details with names from a 4-name alphabet "
                             "(non-ASCII included), content type in {octet-stream, text/plain;charset=utf8, text/x-traceback with two "
                             "parameters, application/json, a type whose parameter value contains a comma}, 0..3 chunks each; octet-stream chunks are symbolic bytes of length <= 1 (any "
                             "value, empty allowed), text chunks concrete incl. an empty chunk and a chunk ending inside nothing; explicit "
                             "symbolic time tokens or none; run-level and/or test-level tags (two-detail case: fixed name rotation and tags)",
                    "thorough": "two details with every pair of content types and all name rotations (tags on)"},
            rule="every path non-trivial", sym=("b0..b5", "t0", "t1"), twin_fix={"form": 0}),
    Harness("two", h_two, _two_shards,
            bounds={"quick": "two tests: every pair of outcomes, exc_info/plain forms with all tag modes, details form (one detail each under the "
                             "same name, 0..2 chunks, 4 content types; distinct test ids or the same id reported twice) with tags on",
                    "thorough": "details form with tags off and on"},
            rule="every path non-trivial", sym=("b0", "b1", "b3", "b4", "t0..t3"), twin_fix={"form": 0}),
]
OUTSIDE = ["more than two tests / two details / three chunks per detail; chunks longer than one byte",
           "symbolic payloads for text content types (decoding is C code)"]
