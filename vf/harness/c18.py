"""C18 - routing picks exactly one destination; route prefixes push and pop inversely."""
from testtools.testresult import doubles
from testtools.testresult.real import StreamResultRouter, StreamToQueue

from vf import ch
from vf.driver import Harness

PROPERTY = "C18"

# rule kinds: (policy, key, consume)
RULES = [("route_code_prefix", "0", True), ("route_code_prefix", "0", False),
         ("route_code_prefix", "1", True), ("route_code_prefix", "1", False),
         ("test_id", None, None), ("test_id", "a", None), ("test_id", "b", None)]
ROUTES = [None, "0", "1", "0/1", "1/0", "0/0/1/1", "2", "2/0"]
IDS = [None, "a", "b"]


class Token:
    def __init__(self, name):
        self.name = name

    def __repr__(self):
        return "<%s>" % self.name


def add(router, sink, rule, dss=False):
    policy, key, consume = rule
    if policy == "route_code_prefix":
        router.add_rule(sink, policy, route_prefix=key, consume_route=consume, do_start_stop_run=dss)
    else:
        router.add_rule(sink, policy, test_id=key, do_start_stop_run=dss)


def run_route(rules, has_fallback, route, tid):
    keys = [(r[0], r[1]) for r in rules]
    if len(set(keys)) != len(keys):
        return None            # ambiguous rule sets are documented as undefined
    fallback = doubles.StreamResult() if has_fallback else None
    router = StreamResultRouter(fallback)
    sinks = []
    for r in rules:
        s = doubles.StreamResult()
        sinks.append(s)
        add(router, s, r)
    tags, fbytes, ts, status = {"t"}, Token("bytes"), Token("ts"), Token("status")
    kwargs = dict(test_id=tid, test_status=status, test_tags=tags, runnable=False, file_name="f",
                  file_bytes=fbytes, eof=True, mime_type="m/t", route_code=route, timestamp=ts)
    # reference from the statement
    first = None if route is None else route.split("/")[0]
    target = None
    exp_route = route
    for i, r in enumerate(rules):
        if r[0] == "route_code_prefix" and route is not None and r[1] == first:
            target = i
            if r[2]:
                rest = route[len(first) + 1:]
                exp_route = rest if rest else None
    if target is None:
        for i, r in enumerate(rules):
            if r[0] == "test_id" and r[1] == tid:
                target = i
    raised = None
    try:
        router.status(**kwargs)
    except Exception as e:
        raised = e
    problems = []
    logs = [s._events for s in sinks] + ([fallback._events] if has_fallback else [])
    total = sum(len(l) for l in logs)
    if target is None and not has_fallback:
        if raised is None:
            problems.append("no destination and no fallback, but status() did not raise")
        if total:
            problems.append("event delivered although there is no destination")
        return {"problems": problems, "target": "raise"}
    if raised is not None:
        problems.append("status() raised %r" % (raised,))
        return {"problems": problems, "target": target}
    want_log = sinks[target]._events if target is not None else fallback._events
    if total != 1 or len(want_log) != 1:
        problems.append("event reached %d sinks (%r), expected exactly sink %r" % (
            total, [len(l) for l in logs], "fallback" if target is None else target))
        return {"problems": problems, "target": target}
    ev = want_log[0]
    if ev.route_code != exp_route:
        problems.append("route code delivered %r, expected %r" % (ev.route_code, exp_route))
    if not (ev.test_id is tid and ev.test_status is status and ev.test_tags is tags and ev.runnable is False
            and ev.file_name == "f" and ev.file_bytes is fbytes and ev.eof is True and ev.mime_type == "m/t"
            and ev.timestamp is ts):
        problems.append("another field was changed: %r" % (ev,))
    return {"problems": problems, "target": "fallback" if target is None else target, "route": ev.route_code}


def h_route(n: int, r0: int, r1: int, r2: int, r3: int, fb: bool, route: int, tid: int) -> bool:
    """
    pre: 0 <= n <= 4 and 0 <= r0 < 7 and 0 <= r1 < 7 and 0 <= r2 < 7 and 0 <= r3 < 7
    pre: 0 <= route < 8 and 0 <= tid < 3
    post: _
    """
    try:
        nn = ch.sel("n", n, 5)
        raw = [r0, r1, r2, r3]
        rs = [ch.sel("r%d" % k, raw[k], len(RULES)) for k in range(nn)]
        if len({(RULES[r][0], RULES[r][1]) for r in rs}) != len(rs):
            return True
        f = ch.cbool(fb)
        ro = ch.sel("route", route, len(ROUTES))
        ti = ch.sel("tid", tid, 3)
    except ch.Prune:
        return True
    o = run_route([RULES[r] for r in rs], f, ROUTES[ro], IDS[ti])
    if o is None:
        return True
    v = dict(rules=tuple(rs), fallback=f, route=ROUTES[ro], tid=IDS[ti])
    ch.LAST.update(o)
    return ch.finish(not o["problems"], v, nontrivial=nn >= 1)


# --- start/stop propagation -------------------------------------------------------------------
STEPS = ["startTestRun", "stopTestRun", "add_rule(do_start_stop_run=True)", "add_rule(do_start_stop_run=False)"]
KEYS3 = [RULES[0], RULES[5], RULES[2], RULES[6], RULES[4]]


def run_startstop(steps, fbmode):
    fallback = doubles.StreamResult() if fbmode else None
    if fbmode == 0:
        router = StreamResultRouter()
    else:
        router = StreamResultRouter(fallback, do_start_stop_run=(fbmode == 1))
    sinks = []       # (sink, registered_for_start_stop, expected_log)
    fb_exp = []
    in_run = False
    for st in steps:
        if st == 0:
            router.startTestRun()
            in_run = True
            for s in sinks:
                if s[1]:
                    s[2].append(("startTestRun",))
            if fbmode == 1:
                fb_exp.append(("startTestRun",))
        elif st == 1:
            router.stopTestRun()
            in_run = False
            for s in sinks:
                if s[1]:
                    s[2].append(("stopTestRun",))
            if fbmode == 1:
                fb_exp.append(("stopTestRun",))
        else:
            if len(sinks) >= len(KEYS3):
                return None
            sink = doubles.StreamResult()
            dss = st == 2
            add(router, sink, KEYS3[len(sinks)], dss=dss)
            exp = []
            if dss and in_run:
                exp.append(("startTestRun",))      # immediately, for a rule added mid-run
            sinks.append((sink, dss, exp))
    problems = []
    for k, (sink, dss, exp) in enumerate(sinks):
        if sink._events != exp:
            problems.append("sink %d (do_start_stop_run=%s) saw %r, expected %r" % (k, dss, sink._events, exp))
    if fbmode and fallback._events != fb_exp:
        problems.append("fallback saw %r, expected %r" % (fallback._events, fb_exp))
    return {"steps": [STEPS[s] for s in steps], "problems": problems}


def h_startstop(n: int, s0: int, s1: int, s2: int, s3: int, s4: int, s5: int, fbmode: int) -> bool:
    """
    pre: 0 <= n <= 6 and 0 <= fbmode < 3
    pre: 0 <= s0 < 4 and 0 <= s1 < 4 and 0 <= s2 < 4 and 0 <= s3 < 4 and 0 <= s4 < 4 and 0 <= s5 < 4
    post: _
    """
    try:
        nn = ch.sel("n", n, 7)
        raw = [s0, s1, s2, s3, s4, s5]
        steps = [ch.sel("s%d" % k, raw[k], 4) for k in range(nn)]
        fm = ch.sel("fbmode", fbmode, 3)
    except ch.Prune:
        return True
    o = run_startstop(steps, fm)
    if o is None:
        return True
    v = dict(steps=tuple(steps), fbmode=fm)
    v["mid_run_unregistered"] = _mid_run_unregistered(steps)
    if ch.excluded(v):
        return True
    ch.LAST.update(o)
    return ch.finish(not o["problems"], v, nontrivial=any(s >= 2 for s in steps))


def _mid_run_unregistered(steps):
    in_run = False
    for s in steps:
        if s == 0:
            in_run = True
        elif s == 1:
            in_run = False
        elif s == 3 and in_run:
            return True
    return False


# --- push / pop -------------------------------------------------------------------------------
CODES = ["0", "1", "ab", ""]
ORIG = [None, "0", "1/0", "x/y/z/w", "ab", "0/0"]


class ListQueue:
    def __init__(self):
        self.items = []

    def put(self, x):
        self.items.append(x)


def run_pushpop(c1, c2, nested, orig):
    """StreamToQueue(c1) [inside StreamToQueue(c2)] then router(s) with consuming rules."""
    q = ListQueue()
    inner = StreamToQueue(q, c1)
    inner.status(test_id="t", test_status="success", route_code=orig)
    ev = q.items[-1]
    problems = []
    if nested:
        q2 = ListQueue()
        outer = StreamToQueue(q2, c2)
        kw = {k: v for k, v in ev.items() if k != "event"}
        outer.status(**kw)
        ev = q2.items[-1]
    sink = doubles.StreamResult()
    r_inner = StreamResultRouter()
    r_inner.add_rule(sink, "route_code_prefix", route_prefix=c1, consume_route=True)
    kw = {k: v for k, v in ev.items() if k != "event"}
    if nested:
        r_outer = StreamResultRouter()
        r_outer.add_rule(r_inner, "route_code_prefix", route_prefix=c2, consume_route=True)
        r_outer.status(**kw)
    else:
        r_inner.status(**kw)
    if len(sink._events) != 1:
        problems.append("expected one event at the sink, got %r" % (sink._events,))
    elif sink._events[0].route_code != orig:
        problems.append("route code after push/pop %r, original %r" % (sink._events[0].route_code, orig))
    return {"problems": problems, "queued_route": ev["route_code"]}


def h_pushpop(c1: int, c2: int, nested: bool, orig: int) -> bool:
    """
    pre: 0 <= c1 < 3 and 0 <= c2 < 3 and 0 <= orig < 6
    post: _
    """
    a, b = ch.sel("c1", c1, 3), ch.sel("c2", c2, 3)
    ne = ch.cbool(nested)
    o = ch.sel("orig", orig, len(ORIG))
    r = run_pushpop(CODES[a], CODES[b], ne, ORIG[o])
    v = dict(c1=CODES[a], c2=CODES[b], nested=ne, orig=ORIG[o])
    ch.LAST.update(r)
    return ch.finish(not r["problems"], v, nontrivial=True)


def h_badprefix(k: int) -> bool:
    """
    pre: 0 <= k < 4
    post: _
    """
    kk = ch.sel("k", k, 4)
    prefix = ["a/b", "/", "a/", "ok"][kk]
    router = StreamResultRouter()
    raised = False
    try:
        router.add_rule(doubles.StreamResult(), "route_code_prefix", route_prefix=prefix)
    except TypeError:
        raised = True
    bad_policy = False
    try:
        router.add_rule(doubles.StreamResult(), "nonsense")
    except ValueError:
        bad_policy = True
    return ch.finish(raised == ("/" in prefix) and bad_policy, dict(prefix=prefix), nontrivial=True)


def _route_shards(tier):
    if tier == "quick":
        return ([({"n": n}, 600) for n in range(3)] + [({"n": 3, "r0": r}, 900) for r in range(7)])
    return ([({"n": n}, 600) for n in range(3)] + [({"n": 3, "r0": r}, 900) for r in range(7)]
            + [({"n": 4, "r0": r, "r1": q}, 1800) for r in range(7) for q in range(7) if q != r])


def _ss_shards(tier):
    if tier == "quick":
        return [({"n": n}, 600) for n in range(5)] + [({"n": 5, "s0": s}, 600) for s in range(4)]
    return ([({"n": n}, 600) for n in range(5)] + [({"n": 5, "s0": s}, 600) for s in range(4)]
            + [({"n": 6, "s0": s, "s1": t}, 1200) for s in range(4) for t in range(4)])


HARNESSES = [
    Harness("route", h_route, _route_shards,
            bounds={"quick": "rule sets of 0..3 rules with distinct keys over {route prefix 0/1 x consume on/off, test id None/a/b}, "
                             "fallback present or absent, one event with route code in {None, 0, 1, 0/1, 1/0, 0/0/1/1, 2, 2/0} and test "
                             "id in {None, a, b}; every other field carries an identity token",
                    "thorough": "0..4 rules"},
            rule="non-trivial = at least one rule", twin_fix={"n": 2},
            fidelity=lambda seed: [(2, 0, 5, 0, 0, fb, r, t) for fb in (True, False) for r in range(8) for t in range(3)],
            observe=lambda n, r0, r1, r2, r3, fb, ro, ti: run_route([RULES[r] for r in [r0, r1, r2, r3][:n]], fb, ROUTES[ro], IDS[ti]),
            describe=lambda n, r0, r1, r2, r3, fb, ro, ti: run_route([RULES[r] for r in [r0, r1, r2, r3][:n]], fb, ROUTES[ro], IDS[ti])),
    Harness("startstop", h_startstop, _ss_shards,
            bounds={"quick": "every sequence of <= 5 steps over {startTestRun, stopTestRun, add_rule with / without do_start_stop_run} "
                             "x fallback {absent, with, without do_start_stop_run}",
                    "thorough": "<= 6 steps"},
            rule="non-trivial = at least one add_rule", twin_fix={"n": 2},
            fidelity=lambda seed: [(3, a, b, c, 0, 0, 0, f) for a in range(4) for b in range(4) for c in (0, 2) for f in range(3)],
            observe=lambda n, s0, s1, s2, s3, s4, s5, f: run_startstop([s0, s1, s2, s3, s4, s5][:n], f),
            describe=lambda n, s0, s1, s2, s3, s4, s5, f: run_startstop([s0, s1, s2, s3, s4, s5][:n], f)),
    Harness("pushpop", h_pushpop, lambda tier: [({}, 600)],
            bounds={"quick": "StreamToQueue(code) (optionally nested in a second one) followed by router(s) with consuming rules: codes in "
                             "{0, 1, ab}; original route code in {None, 0, 1/0, x/y/z/w, ab, 0/0}"},
            rule="every path non-trivial",
            describe=lambda c1, c2, ne, o: run_pushpop(CODES[c1], CODES[c2], ne, ORIG[o])),
    Harness("badprefix", h_badprefix, lambda tier: [({}, 300)],
            bounds={"quick": "add_rule rejects a prefix containing '/' (TypeError) and an unknown policy (ValueError)"},
            rule="every path non-trivial"),
]
OUTSIDE = ["rule sets that register the same key twice (documented as undefined)",
           "route codes with empty segments other than the ones listed"]


def e2_lemmas(tier):
    """E2 (zproxy): the same real functions on proxies carrying SMT terms - unbounded tag sets / strings."""
    from vf import e2
    return e2.summarise(e2.c18_lemmas())


def e2_replay(name, model):
    from vf import e2
    for l in e2.c18_lemmas():
        if l["name"] == name:
            return l["verdict"] != "REFUTED", l
    return True, {"note": "lemma not found"}
