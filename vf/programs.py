"""Shared generator of test programs (C01, C02, C03, C05, C20): a testtools.TestCase subclass
built per path from a concrete decision vector; every stage body appends to an execution log."""
import sys
import unittest

import testtools
from testtools import content as ttcontent
from testtools.matchers import Equals
from testtools.runtest import MultipleExceptions
from testtools.testresult import doubles
from testtools.testresult.real import (ExtendedToStreamDecorator, TestResult)

# behaviour alphabet -------------------------------------------------------------------------
RET, FAIL, ERROR, SKIP, XFAIL, UXS, MULTI, KI, SYSEXIT, SKIPSUB, CUSTOM, NMULTI = range(12)
KIND_NAMES = ["ret", "fail", "error", "skip", "xfail", "uxsuccess", "multi", "ki", "sysexit",
              "skipsub", "custom", "nested-multi"]
N_KINDS = 10          # CUSTOM is only used by the handler harness
BASE_KINDS = (KI, SYSEXIT)


class SubSkip(unittest.SkipTest):
    pass


class CustomError(AssertionError):
    """A user exception class that also is-a failureException; a user handler may claim it."""


def _exc_info(exc):
    try:
        raise exc
    except BaseException:
        return sys.exc_info()


def behave(case, kind):
    if kind == RET:
        return
    if kind == FAIL:
        case.fail("boom")
    if kind == ERROR:
        raise RuntimeError("err")
    if kind == SKIP:
        case.skipTest("why")
    if kind == XFAIL:
        case.expectFailure("xf", case.assertEqual, 1, 0)
    if kind == UXS:
        case.expectFailure("ux", case.assertEqual, 1, 1)
    if kind == MULTI:
        raise MultipleExceptions(_exc_info(AssertionError("m-fail")), _exc_info(RuntimeError("m-err")))
    if kind == KI:
        raise KeyboardInterrupt()
    if kind == SYSEXIT:
        raise SystemExit(3)
    if kind == SKIPSUB:
        raise SubSkip("sub")
    if kind == CUSTOM:
        raise CustomError("custom")
    if kind == NMULTI:
        inner = MultipleExceptions(_exc_info(RuntimeError("n-err-1")), _exc_info(RuntimeError("n-err-2")))
        raise MultipleExceptions(_exc_info(AssertionError("n-fail")), _exc_info(inner))
    raise ValueError(kind)


# what a single raised kind contributes: list of atomic exception classes
FLATTEN = {
    RET: [], FAIL: ["failure"], ERROR: ["error"], SKIP: ["skip"], XFAIL: ["xfail"],
    UXS: ["uxsuccess"], MULTI: ["failure", "error"], KI: ["base"], SYSEXIT: ["base"],
    SKIPSUB: ["skip"], CUSTOM: ["custom"], NMULTI: ["failure", "error", "error"],
}
UNSUCCESSFUL = ("failure", "error", "uxsuccess")


SKIP_DECOS = ["none", "method @skip", "class @skip", "method @skipIf(True)", "class @skipUnless(False)",
              "method @unittest.skip", "class @unittest.skip"]


def make_case(su, body, td, cleanups, log, expect_mismatch=False, force_failure=False,
              skip_deco=0, hooks=None, skip_reason="deco", xf_deco=False):
    """cleanups: list of kinds, registered in setUp (before the raise) in order c1, c2, ...
    skip_deco: index into SKIP_DECOS (odd = method decorated, even = class decorated), with skip_reason.
    xf_deco: the test method is decorated with unittest.expectedFailure.
    hooks: optional dict stage-name -> callable(case) run at the start of that stage."""
    hooks = hooks or {}

    class Gen(testtools.TestCase):
        def setUp(self):
            super().setUp()
            log.append("setUp")
            for i, k in enumerate(cleanups):
                self.addCleanup(self._cleanup, i, k)
            if "setUp" in hooks:
                hooks["setUp"](self)
            behave(self, su)

        def _cleanup(self, i, k):
            log.append("cleanup%d" % i)
            if ("cleanup%d" % i) in hooks:
                hooks["cleanup%d" % i](self)
            behave(self, k)

        def test_it(self):
            log.append("body")
            if "body" in hooks:
                hooks["body"](self)
            if expect_mismatch:
                self.expectThat(1, Equals(2))
            if force_failure:
                self.force_failure = True
            behave(self, body)

        def tearDown(self):
            log.append("tearDown")
            if "tearDown" in hooks:
                hooks["tearDown"](self)
            super().tearDown()
            behave(self, td)

        def defaultTestResult(self):
            return LoggingTestResult(log_to=self._default_log)

    Gen.__qualname__ = "Gen"
    if xf_deco:
        Gen.test_it = unittest.expectedFailure(Gen.test_it)
    if skip_deco:
        deco = {1: lambda: testtools.skip(skip_reason), 2: lambda: testtools.skip(skip_reason),
                3: lambda: testtools.skipIf(True, skip_reason), 4: lambda: testtools.skipUnless(False, skip_reason),
                5: lambda: unittest.skip(skip_reason), 6: lambda: unittest.skip(skip_reason)}[skip_deco]()
        if skip_deco % 2:
            Gen.test_it = deco(Gen.test_it)
        else:
            Gen = deco(Gen)  # class decorator sets __unittest_skip__
    case = Gen("test_it")
    case._default_log = []
    return case


# result flavours ----------------------------------------------------------------------------
F26, F27, FEXT, FTW, FTT, FSTREAM, FNONE = range(7)
FLAVOUR_NAMES = ["py26", "py27", "extended", "twisted", "testtools.TestResult", "stream", "None"]


class LoggingTestResult(TestResult):
    def __init__(self, log_to=None, **kw):
        self._events = log_to if log_to is not None else []
        super().__init__(**kw)

    def startTestRun(self):
        if hasattr(self, "_events"):
            self._events.append(("startTestRun",))
        super().startTestRun()

    def stopTestRun(self):
        self._events.append(("stopTestRun",))
        super().stopTestRun()

    def startTest(self, test):
        self._events.append(("startTest", test))
        super().startTest(test)

    def stopTest(self, test):
        self._events.append(("stopTest", test))
        super().stopTest(test)

    def addSuccess(self, test, details=None):
        self._events.append(("addSuccess", test, details))
        super().addSuccess(test, details=details)

    def addError(self, test, err=None, details=None):
        self._events.append(("addError", test, err or details))
        super().addError(test, err, details=details)

    def addFailure(self, test, err=None, details=None):
        self._events.append(("addFailure", test, err or details))
        super().addFailure(test, err, details=details)

    def addSkip(self, test, reason=None, details=None):
        self._events.append(("addSkip", test, reason or details))
        super().addSkip(test, reason, details=details)

    def addExpectedFailure(self, test, err=None, details=None):
        self._events.append(("addExpectedFailure", test, err or details))
        super().addExpectedFailure(test, err, details=details)

    def addUnexpectedSuccess(self, test, details=None):
        self._events.append(("addUnexpectedSuccess", test, details))
        super().addUnexpectedSuccess(test, details=details)


def make_result(flavour):
    """Returns (result_to_pass, event_log_getter)."""
    if flavour == F26:
        r = doubles.Python26TestResult()
    elif flavour == F27:
        r = doubles.Python27TestResult()
    elif flavour == FEXT:
        r = doubles.ExtendedTestResult()
    elif flavour == FTW:
        r = doubles.TwistedTestResult()
    elif flavour == FTT:
        r = LoggingTestResult()
    elif flavour == FSTREAM:
        sink = doubles.StreamResult()
        r = ExtendedToStreamDecorator(sink)
        return r, sink._events
    elif flavour == FNONE:
        return None, None
    else:
        raise ValueError(flavour)
    return r, r._events


# documented degradation of an abstract outcome on each flavour -> event name at the target
ABSTRACT = ["success", "failure", "error", "skip", "xfail", "uxsuccess"]
EVENT = {"success": "addSuccess", "failure": "addFailure", "error": "addError",
         "skip": "addSkip", "xfail": "addExpectedFailure", "uxsuccess": "addUnexpectedSuccess"}
STREAM_STATUS = {"success": "success", "failure": "fail", "error": "fail", "skip": "skip",
                 "xfail": "xfail", "uxsuccess": "uxsuccess"}


def degrade(outcome, flavour):
    if flavour == F26:
        if outcome in ("skip", "xfail"):
            return "addSuccess"
        if outcome == "uxsuccess":
            return "addFailure"
    return EVENT[outcome]


def normalise_log(events, flavour):
    """Event log -> list of names (stream flavour: status words)."""
    out = []
    for e in events:
        if flavour == FSTREAM:
            if e[0] == "status":
                if e.file_name is not None:
                    out.append("file")
                else:
                    out.append("status:%s" % e.test_status)
            else:
                out.append(e[0])
        else:
            out.append(e[0])
    return out


def text_detail(s):
    return ttcontent.text_content(s)
