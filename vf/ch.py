"""Harness-side helpers shared by every property harness.

Nothing in this module carries a PEP-316 contract (DESIGN 1.2): a contracted callee's failing
postcondition would silently prune the path under CrossHair.
"""


class Prune(BaseException):
    """Abandon the current path: the decision vector is outside the stated bounds."""


# --- per-process state set by the worker before analysis ------------------------------------
FIX = {}          # selector name -> concrete value fixed for this shard
TWIN = False      # reachability twin: non-trivial paths return False
EXCLUDE = []      # [(finding_id, predicate(vec) -> bool)] : open known findings for this harness
STATS = {
    "paths": 0, "nontrivial": 0, "excluded_known": 0, "pruned": 0,
    "vectors": set(), "nt_vectors": set(), "samples": [],
}
MAX_SAMPLES = 6
NATIVE = False   # set by vf.replay: concrete run, values may be rendered
LAST = {}       # details of the most recent oracle evaluation (shown by native replay)


def reset_stats():
    STATS.update(paths=0, nontrivial=0, excluded_known=0, pruned=0,
                 vectors=set(), nt_vectors=set(), samples=[])


def conc(i, n):
    """Concretise a selector: binary branch ladder over 0..n-1 (never table[i] with symbolic i)."""
    if i < 0 or i >= n:
        STATS["pruned"] += 1
        raise Prune()
    lo, hi = 0, n
    while hi - lo > 1:
        mid = (lo + hi) // 2
        if i < mid:
            hi = mid
        else:
            lo = mid
    return lo


def sel(name, v, n):
    """Selector `name` with n alternatives: fixed by the shard or concretised by forking."""
    if name in FIX:
        return FIX[name]
    return conc(v, n)


def cbool(b):
    if b:
        return True
    return False


def excluded(vec):
    """True when vec falls in the class of an open known finding (path skipped, counted)."""
    for _fid, pred in EXCLUDE:
        try:
            if pred(vec):
                STATS["excluded_known"] += 1
                return True
        except Exception:
            pass
    return False


def finish(ok, vec, nontrivial, sym=None):
    """Called once at the end of each completed path with the concrete decision vector."""
    LAST["vector"] = vec
    LAST["ok"] = ok
    STATS["paths"] += 1
    key = tuple(sorted((k, repr(v)) for k, v in vec.items()))
    STATS["vectors"].add(key)
    if nontrivial:
        STATS["nontrivial"] += 1
        STATS["nt_vectors"].add(key)
        if len(STATS["samples"]) < MAX_SAMPLES and (STATS["nontrivial"] % 7 == 1):
            s = dict(vec)
            if sym:
                for name in sym:
                    s[name] = "<sym>"
            STATS["samples"].append(s)
    if TWIN and nontrivial:
        return False
    return ok


def stats_summary():
    s = dict(STATS)
    s["distinct"] = len(s.pop("vectors"))
    s["distinct_nontrivial"] = len(s.pop("nt_vectors"))
    return s


# --- JSON transport of concrete argument vectors (bytes / tuples / sets survive) -----------
def enc(x):
    if isinstance(x, bytes):
        return {"__bytes__": x.hex()}
    if isinstance(x, tuple):
        return {"__tuple__": [enc(i) for i in x]}
    if isinstance(x, (set, frozenset)):
        return {"__set__": [enc(i) for i in sorted(x, key=repr)]}
    if isinstance(x, list):
        return [enc(i) for i in x]
    if isinstance(x, dict):
        return {"__dict__": [[enc(k), enc(v)] for k, v in x.items()]}
    return x


def dec(x):
    if isinstance(x, list):
        return [dec(i) for i in x]
    if isinstance(x, dict):
        if "__bytes__" in x:
            return bytes.fromhex(x["__bytes__"])
        if "__tuple__" in x:
            return tuple(dec(i) for i in x["__tuple__"])
        if "__set__" in x:
            return set(dec(i) for i in x["__set__"])
        if "__dict__" in x:
            return {dec(k): dec(v) for k, v in x["__dict__"]}
    return x


class V:
    """Opaque totally ordered value wrapping a (possibly symbolic) int. Its repr is constant under
    the engine, so code under test that formats a matchee does not fork on the digits of a symbolic
    int; comparisons delegate to the wrapped int and stay symbolic."""
    __slots__ = ("i",)

    def __init__(self, i):
        self.i = i

    def __repr__(self):
        return "V(%r)" % (self.i,) if NATIVE else "<V>"

    def __ch_deep_realize__(self, memo):
        return self          # stays opaque when an engine model deep-realises a container it is in

    def __eq__(self, o):
        return isinstance(o, V) and self.i == o.i

    def __ne__(self, o):
        return not (isinstance(o, V) and self.i == o.i)

    def __lt__(self, o):
        return self.i < o.i

    def __gt__(self, o):
        return self.i > o.i

    def __le__(self, o):
        return self.i <= o.i

    def __ge__(self, o):
        return self.i >= o.i

    def __add__(self, k):
        return V(self.i + k)

    __hash__ = None
