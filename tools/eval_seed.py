#!/usr/bin/env python3
"""Development aid: confirm a seeded defect (patch + demo) in a scratch worktree and run the property's check
against it. usage: eval_seed.py <seed_dir> <PID> [tier]   (seed_dir contains patch.diff, demo.py)
Writes <seed_dir>/eval.json. Uses /tmp/evalwt_<PID> as scratch worktree (removed afterwards)."""
import json, os, subprocess, sys, time

seed, pid = sys.argv[1], sys.argv[2]
VERIF = os.environ.get("VERIF_DIR", "/verif")      # a frozen copy (git worktree of /verif) may be used while /verif is being edited
tier = sys.argv[3] if len(sys.argv) > 3 else "quick"
wt = "/tmp/evalwt_%s_%d" % (pid, os.getpid())
out = {"seed": seed, "property": pid, "tier": tier}
_prev = {}
if os.path.exists(os.path.join(seed, "eval.json")):
    try:
        _prev = json.load(open(os.path.join(seed, "eval.json")))
    except Exception:
        _prev = {}
out["history"] = list(_prev.get("history", []))


def sh(cmd, cwd=None, env=None, timeout=3600):
    p = subprocess.run(cmd, shell=True, cwd=cwd, env=env, capture_output=True, text=True, timeout=timeout)
    return p.returncode, p.stdout + p.stderr


try:
    rc, o = sh("git -C /repo worktree add -q --detach %s HEAD" % wt)
    assert rc == 0, o
    patch = os.path.join(seed, "patch.diff")
    rc, o = sh("git apply --check %s" % patch, cwd=wt)
    out["applies"] = rc == 0
    files = [l[6:] for l in open(patch) if l.startswith("+++ b/")]
    out["files"] = files
    out["only_library_files"] = all(f.startswith("testtools/") and "/tests/" not in f for f in files)
    reuse = os.environ.get("EVAL_REUSE_CONFIRM") and _prev.get("confirmed") and out["applies"]
    if reuse:
        # the change was confirmed (demo with/without, baseline) by an earlier run of this tool on the same /repo HEAD: only re-run the check
        for k in ("demo_clean_rc", "demo_patched_rc", "demo_patched_tail", "baseline_note", "baseline_rc", "baseline"):
            if k in _prev:
                out[k] = _prev[k]
        sh("git apply %s" % patch, cwd=wt)
    else:
        # demo on clean tree
        rc, o = sh("/venv/bin/python %s" % os.path.join(seed, "demo.py"), cwd=wt, timeout=600)
        out["demo_clean_rc"] = rc
        sh("git apply %s" % patch, cwd=wt)
        rc, o = sh("/venv/bin/python %s" % os.path.join(seed, "demo.py"), cwd=wt, timeout=600)
        out["demo_patched_rc"] = rc
        out["demo_patched_tail"] = o[-400:]
        rc, o = sh("/tmp/seed/check_baseline.sh %s" % wt, timeout=1200)
        reg = [l for l in o.splitlines() if l.startswith("REGRESSED")]
        if rc != 0 and reg and all(("sigint" in l or "keyboard_interrupt" in l) for l in reg):
            # background jobs run with SIGINT ignored: the SIGINT-driven reactor tests cannot pass here (they pass in the foreground)
            out["baseline_note"] = "only SIGINT-driven tests failed (background job ignores SIGINT): " + "; ".join(reg)
            rc = 0
        out["baseline_rc"] = rc
        out["baseline"] = o.strip().splitlines()[0] if o.strip() else ""
    out["confirmed"] = bool(out["applies"] and out["only_library_files"] and out["demo_clean_rc"] == 0
                            and out["demo_patched_rc"] != 0 and out["baseline_rc"] == 0)
    env = dict(os.environ, PYTHONPATH=wt, VERIF_REPO=wt)
    t0 = time.time()
    rc, o = sh("./check %s --tier %s" % (pid, tier), cwd=VERIF, env=env, timeout=7200)
    out["check_rc"] = rc
    out["check_wall_s"] = round(time.time() - t0, 1)
    lines = [l for l in o.splitlines() if l.startswith(("VIOLATION", "HARNESS-ERROR", "KNOWN-FINDING", pid))]
    out["check_lines"] = lines[:6]
    out["detected"] = rc == 1
    _c = subprocess.run("git -C %s log --format=%%h -1" % VERIF, shell=True, capture_output=True, text=True).stdout.strip()
    out["history"].append("checks at commit %s: %s" % (_c, "DETECTED" if rc == 1 else ("harness error" if rc == 2 else "missed")))
    # keep one replay transcript for the record
    for l in lines:
        if l.startswith("VIOLATION"):
            path = l.split("replay=")[1]
            try:
                out["replay_example"] = json.load(open(path))
            except Exception:
                pass
            break
finally:
    sh("git -C /repo worktree remove --force %s" % wt)
    sh("rm -rf %s/replays/%s" % (VERIF, pid))
json.dump(out, open(os.path.join(seed, "eval.json"), "w"), indent=1, default=repr)
print(pid, os.path.basename(seed), "confirmed=%s" % out.get("confirmed"), "detected=%s" % out.get("detected"), "rc=%s" % out.get("check_rc"),
      "%.0fs" % out.get("check_wall_s", 0))
