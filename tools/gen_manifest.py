#!/usr/bin/env python3
"""Regenerates /verif/MANIFEST.json from the table below (kept in one place so the manifest is
always valid). Run: /venv/bin/python tools/gen_manifest.py"""
import json, os
ROOT = os.path.dirname(os.path.dirname(os.path.abspath(__file__)))

E1 = "bounded symbolic execution of the real code (CrossHair + z3), exhaustive per shard"
CLAIMS = {
 "C01": dict(design="5/C01", tech=E1,
   text="Every program with up to 2 (quick) / 3 (thorough) faulty stages over a 10-behaviour alphabet x 3 flags x 7 result flavours is executed symbolically on the real TestCase.run/RunTest; z3 exhausts the selector space, so within the bound there is no program for which the run is not bracketed, has not exactly one outcome, or swallows a non-Exception. Further harnesses: 6 skip-decorator forms x {text, empty} reason; a method decorated with unittest.expectedFailure x body x tearDown behaviour; a stage raising a MultipleExceptions without constituents.",
   note="Trusts CrossHair 0.0.110 + z3 path exhaustion ('Confirmed over all paths'), the result doubles shipped with testtools, and the reference semantics in vf/lifecycle.py written from the property statement. Bounds: <=2 cleanups, <=3 faults."),
 "C02": dict(design="5/C02", tech=E1,
   text="Programs of 3 stages x behaviours plus 0..2 (quick) / 0..3 (thorough) registered actions (cleanups, patches of present/absent attributes, fixtures ok/failing/nested) at 5 registration sites are run twice on one instance; execution log (with the patched attribute's value visible in each entry) is compared with a reference interpreter of the statement; one callable registered 1..3 times with equal arguments is called once per registration at its LIFO position; exhaustive within the bound.",
   note="Trusts CrossHair/z3 path exhaustion, fixtures 4.3.2, the reference interpreter in vf/harness/c02.py."),
 "C04": dict(design="5/C04", tech=E1,
   text="Every history of <=3 (quick) / <=4 steps over {startTestRun, stopTestRun, stop(), a test with each outcome} x 10 result stacks x failfast {off, set before wrapping, set after wrapping}: wasSuccessful() and shouldStop are compared with a 3-variable reference after every call on the outer object and every underlying result; TextTestResult's summary is parsed (count, OK xor FAILED(failures=K), one section per problem); real suites of three generated TestCases stop dispatching under failfast; TestProgram/TestToolsTestRunner in-process: SystemExit status and summary. Exhaustive within the bound.",
   note="In-process SystemExit instead of a subprocess exit status; verdict of non-testtools targets and of ExtendedToStreamDecorator not demanded."),
 "C05": dict(design="5/C05", tech=E1 + "; symbolic detail payload bytes",
   text="Two factor harnesses over generated programs: (names) 0..2 user details with names that collide with generated ones, symbolic binary payloads in 1..2 chunks, fixture details (own/colliding name, failing setUp, failing setUp whose own clean-up fails too), expectThat/assertThat mismatch details; (accounting) up to 2 (quick)/3 raising stages over 7 behaviours with 0..2 addOnException handlers. The details dict delivered with the single outcome must contain every user/fixture/mismatch detail with identical bytes, the skip reason, one traceback detail per failure/error raised by user code (MultipleExceptions constituents and the assertion behind an expected failure counted), and each handler called once per exception before the outcome. Exhaustive within the bound.",
   note="Names are a finite alphabet (names are built by %-formatting concrete strings); user details are attached before the framework generates a detail of that name."),
 "C06": dict(design="5/C06", tech=E1 + "; unbounded symbolic int parameters and matchees",
   text="Matcher expression trees (all depth<=1 trees over the full alphabet, all 3964 depth-2 trees over a reduced alphabet; sequence, dict and structure combinators over leaf matchers) are built from selector opcodes; leaf parameters and matchees are unbounded symbolic ints, so each explored path covers every integer satisfying its path condition; verdict is compared with a denotational evaluator, plus determinism and non-modification.",
   note="Ints are wrapped in an opaque ordered value (constant repr) so that message formatting does not fork on digits; regex/doctest/filesystem/warnings leaves are outside the claim."),
 "C07": dict(design="5/C07", tech=E1 + " over finite class-representative alphabets",
   text="text_repr -> ast.literal_eval round trip for every str (12 character classes) / bytes (8 classes) of length <=3 (quick) / <=4 (thorough) x 3 multiline modes; every stock matcher in testtools.matchers.__all__ (read at run time) x constructor variants x per-type matchee alphabets x verbose x annotation: str(), describe(), get_details(), str(MismatchError), assertThat/assert_that raise iff mismatch, expectThat never raises and fails the test iff mismatch; detail-name collisions. All selectors exhausted by the solver.",
   note="repr and codecs are CPython's (finite alphabets only); filesystem leaves use a prepared scratch directory; FileContains on directories excluded."),
 "C19": dict(design="5/C19", tech=E1 + "; symbolic id-membership bits",
   text="Every suite tree up to a node/depth bound (pre-order opcode lists; 4 leaf kinds incl. duplicate ids, 4 suite kinds, empty suites) is built and iterate_tests / sorted_tests / filter_by_ids (ids as a container with symbolic membership bits) / TestProgram --list and --load-list (in-process; list file newline-terminated, unterminated, CRLF with padding) are compared with reference flatten, sort and filter written from the statement; exhaustive within the bound.",
   note="TestProgram is driven in-process with a stub loader; a real temporary file carries the id list."),
 "C17": dict(e2=True, design="5/C17", tech=E1,
   text="Every well-formed history of <=4 (quick) / <=6 (thorough) calls over {startTestRun, startTest, tags(+/-a), tags(+/-b), startTest-less addSkip+stopTest, outcome+stopTest} is replayed into 8 reporters (TestResult, ExtendedToOriginalDecorator over three flavours, ThreadsafeForwardingResult, MultiTestResult, Tagger, ExtendedToStreamDecorator->StreamToExtendedDecorator): current_tags after every call equals a reference scoped set, and the tags observed by the wrapped result / final status events at each outcome equal the reporter's; PlaceHolder tag replay. Exhaustive within the bound.",
   note="Two tags only in E1; the wrapped extended result is a double that records its current tags at each outcome."),
 "C18": dict(e2=True, design="5/C18", tech=E1,
   text="Routing: every rule set of <=3 (quick) / <=4 rules with distinct keys x fallback x event (route code, test id) is run on the real StreamResultRouter with identity tokens in all other fields; start/stop: every sequence of <=5/6 steps over {startTestRun, stopTestRun, add_rule +/- do_start_stop_run} x fallback mode; StreamToQueue push followed by consuming-rule pop (also nested) restores the original route code. Exhaustive within the bound.",
   note="Finite alphabets of route codes/ids in E1; duplicate keys are documented as undefined and excluded."),
 "C08": dict(design="5/C08", tech=E1,
   text="Adapter stacks of depth 1..2 (ExtendedToOriginalDecorator, MultiTestResult fan-out 1/2, TestResultDecorator, Tagger) over six target flavours incl. TestByTestResult x three kinds of test object x one- and two-test histories (6 outcomes, exc_info or details, optional run boundaries/time/tags/stop/progress/done): each innermost target's startTest/outcome/stopTest sequence equals the history mapped through the documented degradation table, payload text survives, stop() reaches every target, TestByTestResult gets one callback per test with times/tags/details (also the empty dict)/status; Taggers are built from one-shot iterables. Exhaustive within the bound.",
   note="Details of success/unexpected-success cannot be carried by old-style protocols (not demanded); progress()/done() are called best-effort."),
 "C09": dict(design="5/C09", tech=E1 + "; symbolic chunk bytes and time tokens",
   text="One- and two-test histories (two tests with distinct ids or the same id reported twice; 6 outcomes, exc_info/reason/plain or details with 0..2 details x 0..3 chunks x 4 content types incl. parameterised ones, non-ASCII names and reasons, symbolic octet-stream chunk bytes, symbolic time tokens, run/test-level tags) are pushed through ExtendedToStreamDecorator and StreamToExtendedDecorator; the intermediate stream is checked for well-formedness (inprogress, chunk order, eof exactly on the last chunk, one final status with tags) and the final extended log for id, outcome, times, reason, every non-empty detail's bytes and content type. Exhaustive within the bounds.",
   note="Text payloads concrete (decoding is C); <=2 tests, <=2 details, <=3 chunks of <=1 byte."),
 "C10": dict(design="5/C10", tech=E1 + "; symbolic chunk bytes and timestamps",
   text="Event sequences (accounting alphabet length <=4/5; other final statuses, id re-use, two routes; attachments with symbolic chunk bytes; tags with symbolic timestamps; a joint alphabet varying all groups) are fed to StreamToDict, StreamSummary and StreamToExtendedDecorator together and compared with a reference accounting model written from the statement; exhaustive within the bounds.",
   note="'fail' may land in errors or failures (exactly one entry); 'exists' through StreamToExtendedDecorator is discarded by design; payload bytes symbolic only for binary mime types."),
 "C11": dict(e2=True, design="5/C11", tech=E1,
   text="Every decorator tree up to a node/depth bound over {sink, StreamFailFast, StreamToQueue, TimestampingStreamResult, CopyStreamResult x1..3, StreamTagger (3 variants, one with overlapping add/discard sets) x1..3} is fed status events (status x tags container incl. frozenset x timestamp x route code x symbolic chunk x symbolic runnable/eof flags) and short event sequences; each leaf's log is compared with the composition of one-line specs along its path; the caller's tag container is snapshotted before/after. Exhaustive within the bound.",
   note="Clock stubbed by replacing testtools.testresult.real.datetime; sinks are the recording doubles."),
 "C12": dict(design="5/C12", tech=E1 + "; symbolic schedule over a deterministic scheduler, fault position as a selector",
   text="2 (thorough: 3) forwarder threads share a logging target and a scheduler-aware semaphore; threads are real but run one at a time; at every point where more than one thread is runnable (semaphore acquire/release, every call on the target) the next thread is chosen by a symbolic schedule variable, so the solver enumerates every interleaving up to the stated schedule depth; for every position j the j-th call on the target raises. Tests carry no tags / test-local / run-level / both, and a thread's second test may start at the first one's end time (tie). Oracle: per completed test one contiguous block (start time, startTest, end time, exactly its tags, outcome, stopTest) by one thread, each once, per-thread order, semaphore count back to 1, no deadlock, no worker crash.",
   note="Pre-emption only at synchronisation points and target calls; beyond the schedule depth the lowest-numbered runnable thread runs."),
 "C13": dict(design="5/C13", tech=E1 + "; symbolic schedule over a deterministic scheduler, fault injection",
   text="ConcurrentTestSuite and ConcurrentStreamTestSuite run with threading/Queue replaced by scheduler-aware fakes, the caller of run() being a scheduled thread too; the solver enumerates the interleavings up to the stated depth for configurations with 1..2 workers, 0..2 tests, a worker whose run() raises or that ends with SystemExit, and faults (caller's result raising at a chosen call, make_tests failing after j sub-suites, KeyboardInterrupt from queue.get). Oracle: each sub-suite run once in its own thread; run() returns only when all workers are done; per worker the events arrive complete and in order (stream: with route code and timestamp; TestResult: one test at a time); broken-runner reported; on abort every started worker is told to stop and the exception propagates; no deadlock.",
   note="'Told to stop' = stop() called on the worker's result object. Real parallel execution outside the claim."),
 "C14": dict(design="5/C14", tech=E1 + " over a virtual-time reactor",
   text="Generated programs under AsynchronousDeferredRunTest (and ForBrokenTwisted) on a virtual-time reactor: each of setUp/body/tearDown/cleanups over 10 behaviours (return, raise, Deferred firing/failing after d, never firing, left-over delayed call, log.err, dropped failed Deferred, skip, fail) with a fault budget, d 0..2, timeouts, stop request instants, logging options. Exactly one outcome between startTest/stopTest; success iff every executed stage was clean and the run completed before timeout/interrupt; timeout/interrupt give an error (interrupt also stops the result); stage log with virtual timestamps equals the reference (each stage starts after the previous Deferred fired, cleanups LIFO); afterwards no pending reactor calls and the Twisted log observers are those installed before. Exhaustive over the selector space.",
   note="Virtual reactor instead of the real one; CPython refcounting decides when a dropped failed Deferred is seen; ties admit either course."),
 "C15": dict(design="5/C15", tech=E1 + " over a virtual-time reactor",
   text="Spinner.run on a deterministic virtual-time reactor: function behaviour x Deferred delay 0..3 x timeout 1..3 x stop request at 0..3/never (every order and tie of fire, timeout, stop) x left-over delayed calls / selectables x pre-installed signal handlers x second run with/without clear_junk; result compared with a first-event-wins reference, and afterwards reactor not running, no pending calls or selectables, junk reported, reactor.stop and signal handlers restored; re-entry refused. Exhaustive over the selector space.",
   note="VReactor = twisted.internet.task.Clock + run/crash/stop/callWhenRunning/removeAll/iterate; the real reactor and wall-clock timing are outside the claim."),
 "C20": dict(design="5/C20", tech=E1 + "; symbolic Deferred results and matcher parameters",
   text="Deferred state (unfired / fired with symbolic int, None, nested tuple / failed with 5 exception classes incl. SystemExit/KeyboardInterrupt / fired but paused on an unfired Deferred) x pre-attached callbacks x inner matchers (Equals on a symbolic parameter): exactly one of has_no_result/succeeded(Always)/failed(Always) matches on fresh Deferreds, succeeded(m)/failed(m) iff state and m, extract_result, matching never fires, results intact for later callbacks in every order of match/fire/add-callback, inspected failures leave no unhandled-failure record at GC, and SynchronousDeferredRunTest gives the same log as the direct program for every (stage, behaviour, flavour). Exhaustive over selectors; all ints within each path.",
   note="Deferreds paused with pause() outside the claim; GC is CPython refcounting + gc.collect()."),
 "C16": dict(design="5/C16", tech=E1 + "; symbolic byte payloads, chunk sizes and offsets",
   text="Chunk reader on symbolic data bytes/chunk sizes/offsets (all values within length bound), real-file reader, chunk-independent decoding for every pair of cut positions over a class-representative alphabet, Content equality on symbolic bytes, ContentType MIME round trip over a token/value alphabet (separators, non-ASCII, upper case), buffered / file contents iterated twice, snapshot semantics; exhaustive within the bounds.",
   note="Stream modelled by ModelStream (io.BytesIO contract); codecs are CPython's (text is a finite alphabet); open known finding F9 (charset containing a comma) is excluded by class."),
 "C03": dict(design="5/C03", tech=E1,
   text="Same program space as C01 with the soundness oracle (success iff nothing raised; single exception maps by type with user handlers first; a failure/error is never downgraded) plus a handler-precedence harness; exhaustive within the bound.",
   note="As C01. 'failure or error' = failureException, other Exception, MultipleExceptions constituents."),
}
NA_PENDING = "check not built yet in this round (planned in DESIGN.md section 5); nothing is claimed for it"

props = [json.loads(l)["id"] for l in open(os.path.join(ROOT, "properties.jsonl"))]
checks = []
for pid in props:
    if pid not in CLAIMS:
        continue
    c = CLAIMS[pid]
    checks.append({
        "property_id": pid,
        "quick_cmd": "./check %s --tier quick" % pid,
        "thorough_cmd": "./check %s --tier thorough" % pid,
        "evidence_file": "evidence/%s.json" % pid,
        "replay_cmd_template": "./check --replay {path}",
        "engine": "E1-crosshair" + ("+E2-zproxy" if c.get("e2") else ""),
        "level_claimed": {"category": "other", "text": c["text"], "design_ref": "DESIGN.md " + c["design"]},
        "level_note": c["note"],
        "technique": c["tech"] + ("; plus zproxy lemmas over unbounded sets/strings (z3 / cvc5)" if c.get("e2") else ""),
    })
na = [{"property_id": p, "reason": CLAIMS.get(p, {}).get("na", NA_PENDING)} for p in props if p not in CLAIMS]
m = {
 "version": 1,
 "setup_cmd": "./setup.sh",
 "hooks": {"guard": "TESTTOOLS_VERIF", "enable": "no source hooks are needed: every stub is a harness-side monkeypatch of module globals; checks import testtools from /repo's working tree",
           "baseline_off_cmd": "/verif/baseline_off.sh", "source_commits": [], "add_only": True},
 "engines": [
  {"name": "E1-crosshair", "path": "vf/engine.py", "serves_properties": sorted(CLAIMS),
   "kind_free_text": "CrossHair 0.0.110 in-process (z3 5.1): per-path symbolic execution of harness + real testtools code, sharded over 16 processes; twins, fidelity self-check, native replay"},
  {"name": "E2-zproxy", "path": "vf/zproxy.py", "serves_properties": ["C11", "C17", "C18"],
   "kind_free_text": "proxy-based symbolic execution of the real functions on SMT terms (z3 sets over an uninterpreted sort, cvc5 strings); fork-and-replay explorer; final assertion unsat per path; reachability twins and a negative control; counterexamples concretised and replayed natively"},
 ],
 "checks": checks,
 "not_applicable": na,
 "notes": "Exit codes: 0 held on everything explored; 1 + VIOLATION line; 2 harness error (vacuous twin, engine infidelity, crashed harness) - never on the unchanged tree. Fixes to /repo: see known_findings.json ('fixed' entries).",
}
json.dump(m, open(os.path.join(ROOT, "MANIFEST.json"), "w"), indent=1)
print("wrote MANIFEST.json: %d checks, %d not_applicable" % (len(checks), len(na)))
