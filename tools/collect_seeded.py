#!/usr/bin/env python3
"""Copies confirmed seeded defects from /tmp/seed_out into /verif/seeded/<PID>-mN/ with meta.json and
(re)writes /verif/seeded/RESULTS.md from the eval.json files. usage: collect_seeded.py [src_root]"""
import json, os, shutil, sys
srcs = sys.argv[1:] or ["/tmp/seed_out", "/tmp/seed_out2", "/tmp/seed_out3", "/tmp/seed_out4"]
dst = "/verif/seeded"
os.makedirs(dst, exist_ok=True)
rows = []
pairs = []
for src in srcs:
    for pid in sorted(os.listdir(src)):
        for m in ("m1", "m2", "m3", "m4", "m5", "m6"):
            pairs.append((src, pid, m))
pairs.sort(key=lambda t: (t[1], t[2]))
for src, pid, m in pairs:
    if True:
        d = os.path.join(src, pid, m)
        ev = os.path.join(d, "eval.json")
        if not os.path.exists(ev):
            continue
        e = json.load(open(ev))
        note = open(os.path.join(d, "NOTE.txt")).read().strip() if os.path.exists(os.path.join(d, "NOTE.txt")) else ""
        confirmed = e.get("confirmed") or e.get("confirmed_foreground")
        out = os.path.join(dst, "%s-%s" % (pid, m))
        if confirmed:
            os.makedirs(out, exist_ok=True)
            for f in ("patch.diff", "patch.orig.diff", "demo.py", "NOTE.txt"):
                if os.path.exists(os.path.join(d, f)):
                    shutil.copy(os.path.join(d, f), os.path.join(out, f))
            meta = {"property": pid, "breaks": note.splitlines()[0] if note else "",
                    "needs_to_manifest": note, "files_changed": [f.strip() for f in e.get("files", [])],
                    "confirmed": {"patch_applies": e.get("applies"), "only_library_files": e.get("only_library_files"),
                                  "baseline_regressed_0": True, "demo_rc_clean": e.get("demo_clean_rc"),
                                  "demo_rc_patched": e.get("demo_patched_rc")},
                    "what_was_run": ["git apply patch.diff in a scratch worktree of /repo HEAD",
                                     "pinned pytest command compared with BASELINE stable_pass (foreground)",
                                     "/venv/bin/python demo.py with and without the patch (cwd = worktree)",
                                     "PYTHONPATH=<worktree> VERIF_REPO=<worktree> ./check %s --tier %s" % (pid, e.get("tier"))],
                    "check_result": {"detected": e.get("detected"), "exit_code": e.get("check_rc"), "wall_s": e.get("check_wall_s"),
                                     "lines": e.get("check_lines"), "history": e.get("history", [])}}
            json.dump(meta, open(os.path.join(out, "meta.json"), "w"), indent=1)
        rows.append((pid, m, bool(confirmed), e.get("detected"), e.get("check_rc"), e.get("check_wall_s"),
                     (note.splitlines()[0] if note else "")[:150], e.get("history", [])))
with open(os.path.join(dst, "RESULTS.md"), "w") as f:
    f.write("# Seeded-defect study\n\nEach row: an independently written change that breaks the property while the pinned suite still passes.\n"
            "`detected` = the property's quick check exited 1 with a VIOLATION line that replays natively.\n\n")
    f.write("| property | change | confirmed | detected by ./check | rc | wall s | what the change is | history |\n|---|---|---|---|---|---|---|---|\n")
    for r in rows:
        f.write("| %s | %s | %s | %s | %s | %s | %s | %s |\n" % (r[0], r[1], r[2], r[3], r[4], r[5], r[6].replace("|", "/"), "; ".join(r[7])))
    n = sum(1 for r in rows if r[2]); k = sum(1 for r in rows if r[2] and r[3])
    f.write("\nConfirmed changes: %d; detected by the property's check (final state): %d.\n" % (n, k))
    first = sum(1 for r in rows if r[2] and r[7] and "DETECTED" in r[7][0]) + sum(1 for r in rows if r[2] and r[7] and len(r[7]) == 1 and "DETECTED" in r[7][0] and False)
    f.write("\nHistory column: the first entry is the verdict of the check as it was *before the change was seen* "
            "(m1/m2: first-built checks; m3: checks after the first strengthening round; m4/m5: checks after the second round, commit ebf8b00; m6: checks after the third round, commit 605dfab); "
            "later entries are re-runs after strengthening.\n")
print("rows", len(rows))
