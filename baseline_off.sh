#!/bin/bash
# Runs the repository's pinned test command with every verification guard OFF and checks that
# every test in BASELINE.json's stable_pass list still passes. Exit 0 iff none regressed.
unset TESTTOOLS_VERIF
OUT=$(mktemp -d)
cd /repo && /venv/bin/python -m pytest -ra -q -p no:cacheprovider --timeout=900 \
  --continue-on-collection-errors --junitxml=$OUT/j.xml >/dev/null 2>&1
/venv/bin/python - "$OUT/j.xml" <<'PY'
import json, sys, xml.etree.ElementTree as ET
base = json.load(open('/root/.vp/BASELINE.json'))
passed = set()
for tc in ET.parse(sys.argv[1]).getroot().iter('testcase'):
    if not any(c.tag in ('failure', 'error', 'skipped') for c in tc):
        passed.add("%s::%s" % (tc.get('classname'), tc.get('name')))
missing = [t for t in base['stable_pass'] if t not in passed]
print("baseline stable_pass: %d, passing now: %d, regressed: %d" % (len(base['stable_pass']), len(passed), len(missing)))
for t in missing[:20]:
    print("REGRESSED", t)
sys.exit(1 if missing else 0)
PY
rc=$?
rm -rf "$OUT"
exit $rc
