#!/bin/bash
# Builds the overlay venv /verif/.venv (offline): /venv's site-packages + /repo on sys.path,
# crosshair-tool + cvc5 from the local wheelhouse. Idempotent; guarded by flock.
set -e
cd "$(dirname "$0")"
exec 9>/verif/.setup.lock
flock 9
if [ -x .venv/bin/python ] && .venv/bin/python -c 'import crosshair, z3, testtools' 2>/dev/null; then
  exit 0
fi
rm -rf .venv
/venv/bin/python -m venv .venv
SP=$(.venv/bin/python -c 'import sysconfig; print(sysconfig.get_paths()["purelib"])')
printf '/venv/lib/python3.12/site-packages\n/repo\n' > "$SP/verif_overlay.pth"
PIP_NO_INDEX=1 .venv/bin/python -m pip install -q --no-index --find-links /opt/veriftools/wheels crosshair-tool cvc5 >/dev/null
.venv/bin/python -c 'import crosshair, z3, cvc5, testtools, twisted; print("overlay ok", testtools.__file__)'
